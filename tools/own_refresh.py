#!/usr/bin/env python3
"""tools/own_refresh.py <own_check log>...  — fold the results of tools/own_check.sh (run against the final harness) into
seeded/<ID>-<name>/meta.json: own_check_final = {flagged, signature, harness_commit}."""
import json,os,re,subprocess,sys
V=os.path.dirname(os.path.dirname(os.path.abspath(__file__)))
commit=subprocess.run(["git","-C",V,"rev-parse","--short","HEAD"],capture_output=True,text=True).stdout.strip()
n=0
for f in sys.argv[1:]:
    for l in open(f):
        m=re.match(r"OWN (C\d+)-(m\d+): exit=(\d+)\s*(signature=(\S+))?",l)
        if not m: continue
        pid,name,code,_,sig=m.groups()
        p=os.path.join(V,'seeded',f'{pid}-{name}','meta.json')
        if not os.path.exists(p): continue
        meta=json.load(open(p))
        meta['own_check_final']={'flagged':code=='1','exit':int(code),'signature':sig or '', 'harness_commit':commit}
        json.dump(meta,open(p,'w'),indent=1); n+=1
print('updated',n)
