#!/usr/bin/env python3
"""Markdown summary of the mechanical-mutant run (seeded/_automut/{INDEX,results}.tsv; DESIGN section 8)."""
import os,collections
V=os.path.dirname(os.path.dirname(os.path.abspath(__file__)))
D=V+'/seeded/_automut'
idx={}
for l in open(D+'/INDEX.tsv'):
    p=l.rstrip('\n').split('\t')
    if len(p)>=3: idx[p[0]]=(p[1],p[2])
res={}
for l in open(D+'/results.tsv'):
    p=l.rstrip('\n').split('\t')
    if p and p[0] in idx: res[p[0]]=p[1:]
verd={}
vf=D+'/survivors.tsv'   # hand verdicts: name \t equivalent|unspecified|gap \t reason
if os.path.exists(vf):
    for l in open(vf):
        p=l.rstrip('\n').split('\t')
        if len(p)>=3: verd[p[0]]=(p[1],p[2])
c=collections.Counter(v[0] for v in res.values())
by=collections.Counter(v[1] for v in res.values() if v[0]=='CAUGHT')
print(f"{len(idx)} single-site mutants; {c['NO-COMPILE-OR-HANG']} do not compile (or hang the suite); {c['KILLED-BY-SUITE']} are killed by the crate's own 136 tests; "
      f"{c['CAUGHT']+c['SURVIVED']} survive the suite. Of these, {c['CAUGHT']} are flagged by a quick check "
      f"(first check to flag, in the fixed order: {', '.join(f'{k} {v}' for k,v in sorted(by.items()))}) and {c['SURVIVED']} pass all 18 quick checks.\n")
print("| surviving mutant | site | change | verdict after reading it |")
print("|---|---|---|---|")
for k in sorted(res):
    if res[k][0]!='SURVIVED': continue
    site,chg=idx[k]
    v=verd.get(k,('?',''))
    print(f"| {k} | {site.replace('src/indicators/','')} | {chg} | {v[0]}: {v[1]} |")
