#!/usr/bin/env python3
"""Markdown summary of the mechanical-mutant runs (seeded/_automut*/{INDEX,results,survivors}.tsv; DESIGN section 8)."""
import os,collections,glob
V=os.path.dirname(os.path.dirname(os.path.abspath(__file__)))
SETS=[('seeded/_automut','first operator set (arithmetic / comparison / logic swaps, boundary and constant changes, min<->max, getter swaps, dropped abs, deleted state update)'),
      ('seeded/_automut2','second operator set (period <-> count, period +- 1, range bounds, negated / constant conditions, swapped operands of a difference, shifted ring index, reversed or shortened iteration, wrong typical-price member, sign tests, dropped sqrt)')]
for d,desc in SETS:
    D=os.path.join(V,d)
    if not os.path.exists(D+'/INDEX.tsv'): continue
    idx={}
    for l in open(D+'/INDEX.tsv'):
        p=l.rstrip('\n').split('\t')
        if len(p)>=3: idx[p[0]]=(p[1],p[2])
    res={}
    for l in open(D+'/results.tsv'):
        p=l.rstrip('\n').split('\t')
        if p and p[0] in idx: res[p[0]]=p[1:]
    verd={}
    vf=D+'/survivors.tsv'   # hand verdicts: name \t equivalent|unspecified|gap \t reason
    if os.path.exists(vf):
        for l in open(vf):
            p=l.rstrip('\n').split('\t')
            if len(p)>=3: verd[p[0]]=(p[1],p[2])
    c=collections.Counter(v[0] for v in res.values())
    by=collections.Counter(v[1] for v in res.values() if v[0]=='CAUGHT')
    print(f"**{desc}.** {len(idx)} single-site mutants ({len(res)} run); {c['NO-COMPILE-OR-HANG']} do not compile (or hang the suite); {c['KILLED-BY-SUITE']} are killed by the crate's own 136 tests; "
          f"{c['CAUGHT']+c['SURVIVED']} survive the suite. Of these, {c['CAUGHT']} are flagged by a quick check "
          f"(first check to flag, in the fixed order: {', '.join(f'{k} {v}' for k,v in sorted(by.items()))}) and {c['SURVIVED']} pass all 18 quick checks.\n")
    print("| surviving mutant | site | change | verdict after reading it |")
    print("|---|---|---|---|")
    for k in sorted(res):
        if res[k][0]!='SURVIVED': continue
        site,chg=idx[k]
        v=verd.get(k,('?',''))
        print(f"| {k} | {site.replace('src/indicators/','')} | {chg} | {v[0]}: {v[1]} |")
    print()
