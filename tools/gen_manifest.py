#!/usr/bin/env python3
"""Regenerates /verif/MANIFEST.json from the table below (kept in one place so it stays valid)."""
import json, os
V = os.path.dirname(os.path.dirname(os.path.abspath(__file__)))

CHECKS = {
 "C01": ("reference model (double-double recomputation of the last min(t,n) inputs) over bounded-exhaustive sequences + proptest streams",
         "Every prefix of every generated stream is compared with a from-scratch double-double evaluation of the window statistic. Exhaustive over all sequences of a 6-letter alphabet (ties, sign changes, zero) to depth 7 (quick) / 9 (thorough) for periods 1..=5; sampled for periods up to 1024 and streams to 20 000. Exploration: absence of a counterexample within these bounds, not a proof.", "4/C01"),
 "C02": ("reference model (double-double EMA recursion, closed-form cross-check) over bounded-exhaustive scalar/bar sequences + proptest",
         "EMA/TR/ATR/MACD/KC/CE outputs compared field by field with the documented recursion evaluated in double-double over the whole history; exhaustive for periods 1..=5 (MACD triples over {1,2,3}^3) on small alphabets incl. every TrueRange branch, sampled to period 1024.", "4/C02"),
 "C03": ("reference model (double-double documented formulas, condition-number gate) over bounded-exhaustive + proptest",
         "Each oscillator compared with its documented formula evaluated from scratch in double-double at every step whose condition number is <= 1e6; exhaustive over small scalar and bar alphabets for periods 1..=5, sampled to 512 on grid-valued and free positive prices with close independent of (high+low)/2.", "4/C03"),
}

def main():
    checks = []
    for pid in sorted(CHECKS):
        tech, text, ref = CHECKS[pid]
        checks.append({
            "property_id": pid,
            "quick_cmd": f"./check {pid} --tier quick",
            "thorough_cmd": f"./check {pid} --tier thorough",
            "evidence_file": f"/verif/evidence/{pid}.json",
            "replay_cmd_template": f"./check {pid} --replay {{path}}",
            "engine": "tacheck",
            "level_claimed": {"category": "exploration", "text": text, "design_ref": f"DESIGN.md section {ref}"},
            "level_note": "Trusted base: rustc/cargo, proptest 1.11 (generation + shrinking), the harness's double-double arithmetic and reference formulas (written from the property text, never reading ta's state), serde_json for replay files. Bounded search: finds violations inside the generated domain, shows nothing outside it.",
            "technique": tech,
        })
    claimed = set(CHECKS)
    na = [{"property_id": "C19", "reason": "Decided by the type checker once for all programs; there is no run-time input to generate, so property-based testing/fuzzing does not apply (DESIGN.md section 5)."}]
    for i in range(1, 19):
        pid = f"C{i:02d}"
        if pid not in claimed:
            na.append({"property_id": pid, "reason": "check not built yet (work in progress; will be claimed once its check is silent on the unchanged tree)"})
    m = {
        "version": 1,
        "setup_cmd": "./setup.sh",
        "hooks": {
            "guard": "ta_rs_verif",
            "enable": "none needed: every check observes ta through its public API only; the cfg name is reserved and unused, no hook commit exists",
            "baseline_off_cmd": "cd /repo && cargo test --workspace --no-fail-fast --offline",
            "source_commits": [],
            "add_only": True,
        },
        "engines": [
            {"name": "tacheck", "path": "/verif/harness", "serves_properties": sorted(claimed),
             "kind_free_text": "Rust harness (stable toolchain) path-depending on /repo: proptest-driven random stages with shrinking, bounded-exhaustive enumeration stages, JSON replay files, evidence writer; built with overflow checks and debug assertions on"},
        ],
        "checks": checks,
        "notes": "All checks: ./check <ID> --tier quick|thorough; exit 0 held / 1 VIOLATION / 2 inconclusive (build failure, watchdog). Known findings and fixed defects: known_findings.json.",
        "not_applicable": na,
    }
    json.dump(m, open(os.path.join(V, "MANIFEST.json"), "w"), indent=1)
    print("claimed:", sorted(claimed))

main()
