#!/usr/bin/env python3
"""Regenerates /verif/MANIFEST.json from the table below (kept in one place so it stays valid)."""
import json, os
V = os.path.dirname(os.path.dirname(os.path.abspath(__file__)))

CHECKS = {
 "C01": ("reference model (double-double recomputation of the last min(t,n) inputs) over bounded-exhaustive sequences + proptest streams + ultra-long single-instance streams (>2^24 inputs) + libFuzzer campaign (thorough) + identity-event stage (clone / clone_from into a used target / serde round trip applied mid-stream under the same oracle) + Default-built instances",
         "Every prefix of every generated stream is compared with a from-scratch double-double evaluation of the window statistic. Exhaustive over all sequences of a 6-letter alphabet (ties, sign changes, zero) to depth 7 (quick) / 9 (thorough) for periods 1..=5; sampled for periods up to 1024 and streams to 20 000. Exploration: absence of a counterexample within these bounds, not a proof.", "4/C01"),
 "C02": ("reference model (double-double EMA recursion, closed-form cross-check) over bounded-exhaustive scalar/bar sequences + proptest + ultra-long streams (>2^16, >2^24 inputs) + libFuzzer campaign (thorough) + identity-event stage (clone / clone_from into a used target / serde round trip applied mid-stream under the same oracle) + reset-segment stage + Default-built instances",
         "EMA/TR/ATR/MACD/KC/CE outputs compared field by field with the documented recursion evaluated in double-double over the whole history; exhaustive for periods 1..=5 (MACD triples over {1,2,3}^3) on small alphabets incl. every TrueRange branch, sampled to period 1024.", "4/C02"),
 "C03": ("reference model (double-double documented formulas, condition-number gate) over bounded-exhaustive + proptest (incl. tiny price units) + ultra-long streams (>2^16, >2^24 inputs) + libFuzzer campaign (thorough) + identity-event stage (clone / clone_from into a used target / serde round trip applied mid-stream under the same oracle) + reset-segment stage + Default-built instances",
         "Each oscillator compared with its documented formula evaluated from scratch in double-double at every step whose condition number is <= 1e6; exhaustive over small scalar and bar alphabets for periods 1..=5, sampled to 512 on grid-valued and free positive prices with close independent of (high+low)/2.", "4/C03"),
 "C04": ("differential testing (reset instance vs fresh instance) over bounded-exhaustive histories + proptest histories with special values + counter-wrap history lengths + libFuzzer campaign (thorough) + continuations in other units and signs",
         "All 22 indicators: after any generated history of next/reset (incl. NaN/inf/extreme values) and a final reset(), outputs on an independently drawn finite continuation are compared with a fresh instance, a fresh instance reset twice and a doubly reset instance; parameters/Display compared. Exhaustive for periods 1..=4 over a 6-letter history alphabet to depth 5/7; sampled to periods 256/2048; window-less periods to usize::MAX.", "4/C04"),
 "C05": ("model-based testing (replay model: each instance = fresh instance fed its own subsequence, bit-exact, also on a fresh thread) over exhaustive interleavings + proptest + 16-thread stage + libFuzzer campaign (thorough) + exhaustive clone_from matrix (target history x source history) + reset() among the interleaved operations (replayed on the model) + predecessor / lock-step instances",
         "All 22 indicators: operations on original / clone / unrelated instance in every interleaving of short sequences (exhaustive) and long random ones; every output must be bit-identical to a fresh instance fed only the inputs addressed to that instance. A 16-thread stage compares concurrent with sequential runs of distinct instances. Real OS schedules are not enumerated.", "4/C05"),
 "C06": ("round-trip differential (bincode serialize/deserialize at every checkpoint, chained, bytes moved directly / through io::Read / framed between other values; plus a second format, serde_json text and serde_json::Value, wherever the state is representable in it) over bounded-exhaustive histories + proptest + very large windows (4 097 .. 66 000 slots) + libFuzzer campaign (thorough)",
         "serde build: all 22 indicators, checkpoint after every prefix of every short history (exhaustive, periods 1..=4) and at generated positions of long ones, restored copy replaces the live one (chained round-trips) while a never-serialized shadow runs in lock-step; continuation outputs, parameters, Display and re-serialized bytes compared; DataItem round-trips.", "4/C06"),
 "C07": ("validity predicate (range) gated by a double-double reference denominator, bounded-exhaustive + proptest regimes pushing the extremes (incl. subnormal price units) + libFuzzer campaign (thorough) + identity-event stage (clone / clone_from into a used target / serde round trip applied mid-stream under the same oracle) + reset-segment stage with the next stretch in another price/volume unit",
         "RSI, FastStochastic, SlowStochastic, MFI in [0,100] and ER in [0,1] with the property's slack at every step whose reference denominator is non-zero; exhaustive small alphabets (incl. 1 and 1+2^-20) for periods 1..=5; random regimes (monotone runs, alternating extremes, near-flat, volumes over 12 decades), streams to 5 000 / 50 000.", "4/C07"),
 "C08": ("validity predicate (finite, in range, exact neutral values) on degenerate windows; grid enumeration + proptest (prefix, level, stretch length) + libFuzzer campaign (thorough) + identity-event stage (clone / clone_from into a used target / serde round trip applied mid-stream under the same oracle)",
         "All 22 indicators on flat / zero-flow windows reached from the start or after arbitrary activity (incl. 1e6x spikes), flat stretches from 1 to 3 000 / 8 000 bars (long enough for EMA underflow), periods 1..=8 on a full grid, sampled to 256.", "4/C08"),
 "C09": ("invariants over the history (sign, ordering, hull, histogram identity) after every input; bounded-exhaustive + proptest cancellation streams + 140 000-input sign stage + libFuzzer campaign (thorough) + identity-event stage (clone / clone_from into a used target / serde round trip applied mid-stream under the same oracle) + reset-segment stage + windows to 4 097 slots, multipliers to f64::MAX",
         "SD/MAD/TR/ATR >= 0, Minimum <= Maximum, band ordering, Chandelier exits vs window extremes, histogram = line - signal, SMA/WMA/EMA inside their hull; exhaustive over {-1e12,-1,0,1e-6,1,1e12} for periods 1..=5; random streams engineered for cancellation, multipliers >= 0 incl. 0 and 1e6.", "4/C09"),
 "C10": ("differential (bar path vs documented-field scalar path) + metamorphic field perturbation + DataItem twin, proptest + joint resets and identity events",
         "All 22 indicators on bars with five independently drawn fields: next(&bar) vs next(documented field); one-price bars vs scalar path; undocumented fields replaced by unrelated values (outputs must stay bit-identical); DataItem vs another implementor.", "4/C10"),
 "C11": ("reference predicate on constructor verdicts/accessors/Display/Default; exhaustive enumeration of period arguments + proptest later histories + long lives with a reset before every power-of-two call count",
         "Every single-period constructor for 0..=4096, all tuples over 0..=24 for MACD/PPO/SlowStochastic, boundary periods up to usize::MAX for allocation-free arguments, special multipliers; built with overflow checks. Default vs new(documented defaults) compared on generated streams.", "4/C11"),
 "C12": ("robustness testing: catch_unwind around every call, deterministic sweeps of every ring state (periods 1..=64 and 14 structural larger ones, 8 special-value schedules) + >2^16 ring turns + proptest op sequences + libFuzzer campaign (thorough); overflow checks and debug assertions on + round-trip-and-continue operation, tie-heavy inputs, windows of 2^16 slots and more",
         "All 22 indicators x every period 1..=64 x 8 special-value schedules x a reset at every ring phase, each for 3p+3 calls plus clone/serialize/Display/Debug; random sequences for periods to 4096. A hang is reported as inconclusive (exit 2).", "4/C12"),
 "C13": ("reference model (double-double recomputation of the current window) at sampled steps of long generated streams (grid of regimes + periodic saw-tooth and periodic-spike stages + proptest) + identity-event stage (clone / clone_from into a used target / serde round trip applied mid-stream under the same oracle) + Default-built instances",
         "Uninterrupted streams of 2e5 (quick) / 2e6 (thorough) inputs per configuration in a three-decade band under random-walk, alternating-extreme, spike, plateau and saw-tooth regimes; SMA, WMA, SD, BB, MAD, CCI, MFI, MIN, MAX checked against recomputation at about 300 sampled steps and at the end; variance sign checked at every step.", "4/C13"),
 "C14": ("metamorphic testing (scale by 2^k, arbitrary scale, shift, mirror) on twin runs (scalar and bar path mixed on both twins), proptest + identity-event stage (clone / clone_from into a used target / serde round trip applied mid-stream under the same oracle)",
         "Twin instances fed x and T(x), compared after every input with the property's tolerances; conditioning and tie rules keep discontinuous comparisons out; all k in -40..=40 visited in the thorough tier.", "4/C14"),
 "C15": ("differential testing (composite vs hand-wired public parts), proptest + 70 000*n-input streams + libFuzzer campaign (thorough) + identity-event stage (clone / clone_from into a used target / serde round trip applied mid-stream under the same oracle) + joint resets of composite and parts + Default-built instances",
         "BB, SlowStochastic, ATR, MACD, PPO, KC, CE, CCI compared at every step with separately constructed public parts combined as documented; every parameter tuple from the period mixture, bars with close != (high+low)/2.", "4/C15"),
 "C16": ("reference predicate + getter round-trip; exhaustive lattice enumeration (11^5 tuples x 120 setter orders, both tiers) + proptest + sequences of related builds on one thread (rearranged twins) + many builders alive at once + raw-bit-pattern libFuzzer stage (thorough)",
         "The complete lattice {-inf,-2,-1,-0.0,0.0,1,2,3,+inf,NaN}^5 under all 120 setter orders, all proper setter subsets and repeated calls for subsets, random finite tuples: verdict compared with the reference predicate, getters bit-exact, clone equal. Exhaustive within the lattice.", "4/C16"),
 "C17": ("differential testing (full history vs bare suffix) over exhaustive prefix/suffix splits + proptest with 1e6x spikes and exact zeros in the prefix + libFuzzer campaign (thorough) + identity-event stage (clone / clone_from into a used target / serde round trip applied mid-stream under the same oracle)",
         "12 windowed indicators: instance fed prefix+suffix vs fresh instance fed only the suffix, compared from the w-th suffix element on (exact for comparison-only indicators, the property's tolerances otherwise); exhaustive for periods 1..=3 over {1,2,1e6}; sampled to period 300 with the exact boundary (extra = 0) forced often.", "4/C17"),
 "C18": ("resource invariant: bincode serialized size and live heap bytes (counting global allocator) vs the parameter bound, grid of single-series shapes, two-series bar shapes (highs and lows following patterns of their own) and extreme price units + proptest + reset schedules",
         "serde build: all 22 indicators x 8 periods x 12 single-series stream shapes (monotone, alternating, flat, random, staircases with ties, floor/ceiling touches, tick grid, zero volume, periodic outliers), 25 two-series bar shapes, exact-zero tick walks, a compounding sweep through hundreds of binades, extreme price units, reset schedules and instances restored from their own bytes, for 1e5 (quick) / 1e6 (thorough) inputs: serialized size sampled at every early step and at checkpoints, net heap growth and peak after warm-up measured per thread.", "4/C18"),
}

def main():
    checks = []
    for pid in sorted(CHECKS):
        tech, text, ref = CHECKS[pid]
        checks.append({
            "property_id": pid,
            "quick_cmd": f"./check {pid} --tier quick",
            "thorough_cmd": f"./check {pid} --tier thorough",
            "evidence_file": f"/verif/evidence/{pid}.json",
            "replay_cmd_template": f"./check {pid} --replay {{path}}",
            "engine": "tacheck",
            "level_claimed": {"category": "exploration", "text": text, "design_ref": f"DESIGN.md section {ref}"},
            "level_note": "Trusted base: rustc/cargo, proptest 1.11 (generation + shrinking), the harness's double-double arithmetic and reference formulas (written from the property text, never reading ta's state), serde_json for replay files. Bounded search: finds violations inside the generated domain, shows nothing outside it.",
            "technique": tech,
        })
    claimed = set(CHECKS)
    na = [{"property_id": "C19", "reason": "Decided by the type checker once for all programs; there is no run-time input to generate, so property-based testing/fuzzing does not apply (DESIGN.md section 5)."}]
    for i in range(1, 19):
        pid = f"C{i:02d}"
        if pid not in claimed:
            na.append({"property_id": pid, "reason": "check not built yet (work in progress; will be claimed once its check is silent on the unchanged tree)"})
    m = {
        "version": 1,
        "setup_cmd": "./setup.sh",
        "hooks": {
            "guard": "ta_rs_verif",
            "enable": "none needed: every check observes ta through its public API only; the cfg name is reserved and unused, no hook commit exists",
            "baseline_off_cmd": "cd /repo && cargo test --workspace --no-fail-fast --offline",
            "source_commits": [],
            "add_only": True,
        },
        "engines": [
            {"name": "tacheck", "path": "/verif/harness", "serves_properties": sorted(claimed),
             "kind_free_text": "Rust harness (stable toolchain) path-depending on /repo: proptest-driven random stages with shrinking, bounded-exhaustive enumeration stages, ultra-long seed-expanded stream stages, libFuzzer campaigns (nightly cargo-fuzz targets ops_total / ops_equiv / ops_value / ops_pred sharing the byte decoders with the harness) in the thorough tier, JSON replay files, evidence writer; built with overflow checks and debug assertions on"},
        ],
        "checks": checks,
        "notes": "All checks: ./check <ID> --tier quick|thorough; exit 0 held / 1 VIOLATION / 2 inconclusive (build failure, watchdog). Known findings and fixed defects: known_findings.json.",
        "not_applicable": na,
    }
    json.dump(m, open(os.path.join(V, "MANIFEST.json"), "w"), indent=1)
    print("claimed:", sorted(claimed))

main()
