#!/bin/bash
# tools/seed_pipeline.sh <seed dir> <property id> <name>
# 1. confirm in a scratch worktree (suite passes, demo fails with / passes without the patch)
# 2. apply to /repo, run every quick check, revert
# 3. keep as /verif/seeded/<id>-<name>/ {patch.diff, demo.rs, notes.md, meta.json}
src="$1"; pid="$2"; name="$3"
v=$("${VERIF_ROOT:-/verif}"/tools/verify_seed.sh "$src" 2>&1 | tail -1 | sed -E 's/test result: //g; s/[0-9]+ ignored; [0-9]+ measured; [0-9]+ filtered out; finished in [0-9.]+s//g')
echo "$v" | cut -c1-300
ok=no
if echo "$v" | grep -q "suite_ok=yes" && echo "$v" | grep -q "demo with patch: FAILED" && echo "$v" | grep -q "demo without: ok"; then ok=yes; fi
if [ $ok != yes ]; then echo "NOT CONFIRMED: $src"; exit 1; fi
r=$("${VERIF_ROOT:-/verif}"/tools/run_seeded.sh "$src/patch.diff" 2>&1)
echo "$r" | grep -E "CAUGHT|exit=" | cut -c1-260
caught=$(echo "$r" | grep "^CAUGHT_BY:" | sed 's/CAUGHT_BY://')
sigs=$(echo "$r" | grep -oE "signature=[^ ]+" | sed 's/signature=//' | tr '\n' ' ')
dst=${SEED_DST:-/verif/seeded}/$pid-$name
mkdir -p "$dst"
cp "$src/patch.diff" "$src/demo.rs" "$dst/"; [ -f "$src/notes.md" ] && cp "$src/notes.md" "$dst/"
python3 - "$dst" "$pid" "$name" "$v" "$caught" "$sigs" <<'PY'
import json,sys,re,os
dst,pid,name,v,caught,sigs=sys.argv[1:7]
notes=open(os.path.join(dst,'notes.md')).read() if os.path.exists(os.path.join(dst,'notes.md')) else ''
meta={"breaks_property":pid,"name":name,
 "origin":"fresh sub-agent given only the property text and its own scratch worktree of /repo (nothing from /verif)",
 "needs_to_manifest":notes.strip(),
 "confirmed_in_scratch_worktree":v.strip(),
 "what_was_run":["tools/verify_seed.sh (scratch worktree /tmp/wt/verify: git apply; cargo test --offline; demo with and without the patch)","tools/run_seeded.sh (git -C /repo apply; ./check <ID> --no-regress for all 18 IDs; git -C /repo checkout -- .)"],
 "harness_commit": __import__("subprocess").run(["git","-C","/verif","rev-parse","--short","HEAD"],capture_output=True,text=True).stdout.strip(), "repo_commit": __import__("subprocess").run(["git","-C","/repo","rev-parse","--short","HEAD"],capture_output=True,text=True).stdout.strip(),
 "caught_by_quick_checks":caught.split(),"signatures":sigs.split(),
 "caught_by_own_property_check": pid in caught.split()}
json.dump(meta,open(os.path.join(dst,'meta.json'),'w'),indent=1)
print("KEPT",dst,"caught_by:",caught)
PY
