#!/bin/bash
# tools/lanes.sh <lane-id> <list-file>   — run the seed pipeline for the mutants named in <list-file>
# (lines "<seed dir> <property> <name>") in a fully independent lane: its own worktree of /repo HEAD, its own
# copy of the harness (path dependency patched to that worktree), its own verification worktree.
k="$1"; list="$2"
L=/tmp/lane$k
git -C /repo worktree remove --force $L/repo 2>/dev/null; git -C /repo worktree remove --force $L/verify 2>/dev/null
rm -rf $L; mkdir -p $L
git -C /repo worktree add --detach $L/repo HEAD -q || exit 2
rsync -a --exclude harness/fuzz/target --exclude harness/target/tmpcheck --exclude .git /verif/ $L/verif/
sed -i "s#path = \"/repo\"#path = \"$L/repo\"#" $L/verif/harness/Cargo.toml
export VERIF_ROOT=$L/verif VERIF_REPO=$L/repo SEED_DST=${SEED_DST:-/verif/seeded} VERIFY_WT=$L/verify TACHECK_EVIDENCE_DIR=$L/evidence
while read -r src pid name; do
  [ -z "$src" ] && continue
  $L/verif/tools/seed_pipeline.sh "$src" "$pid" "$name"
done < "$list" > $L/log 2>&1
echo "LANE $k DONE" >> $L/log
