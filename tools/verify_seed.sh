#!/bin/bash
# tools/verify_seed.sh <seed dir with patch.diff + demo.rs> [features]
# Confirms in a scratch worktree (outside /repo and /verif): patch applies, crate builds, the existing
# suite passes with it, the demo fails with it and passes without it. Prints a one-line verdict.
d="$1"; feat="${2:-}"
WT=${VERIFY_WT:-/tmp/wt/verify}
export CARGO_NET_OFFLINE=true CARGO_TARGET_DIR=${VERIFY_WT:-/tmp/wt/verify}-target
if [ ! -d "$WT" ]; then git -C /repo worktree add --detach "$WT" HEAD -q || exit 2; fi
cd "$WT" || exit 2
git checkout -q --detach "$(git -C /repo rev-parse HEAD)" 2>/dev/null
git checkout -- . ; git clean -fdq
fl=""; [ -n "$feat" ] && fl="--features $feat"
grep -q "bincode\|serde" "$d/demo.rs" && fl="--features serde"
git apply "$d/patch.diff" || { echo "VERDICT $d: patch does not apply"; exit 1; }
suite=$(cargo test --offline $fl 2>&1 | grep -E "^test result" | tr '\n' ' ')
suite_ok=yes; echo "$suite" | grep -q "FAILED\|[1-9][0-9]* failed" && suite_ok=no
[ -z "$suite" ] && suite_ok=no
cp "$d/demo.rs" tests/demo.rs
with=$(cargo test --offline $fl --test demo 2>&1 | grep -E "^test result|error(\[|:)" | head -3 | tr '\n' ' ')
git checkout -- . 
without=$(cargo test --offline $fl --test demo 2>&1 | grep -E "^test result|error(\[|:)" | head -3 | tr '\n' ' ')
rm -f tests/demo.rs; git checkout -- . ; git clean -fdq
echo "VERDICT $d: suite_ok=$suite_ok | suite: $suite | demo with patch: $with | demo without: $without"
