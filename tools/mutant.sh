#!/bin/bash
# tools/mutant.sh <patch.diff> <ID> [<ID>...]  — apply a patch to /repo, run the quick checks, always revert.
# Replay files written by the run are removed again (they belong to the mutant, not to the tree).
patch="$1"; shift
cd /repo || exit 2
if [ -n "$(git status --porcelain --untracked-files=no)" ]; then echo "repo dirty" >&2; exit 2; fi
git apply "$patch" || { echo "patch does not apply" >&2; exit 2; }
trap 'git -C /repo checkout -- . ; find /verif/replays -name "found-*" -newer /tmp/.mutant_stamp -delete 2>/dev/null' EXIT
touch /tmp/.mutant_stamp
export TACHECK_EVIDENCE_DIR=/tmp/seeded-evidence; mkdir -p $TACHECK_EVIDENCE_DIR
rc=0
for id in "$@"; do
  out=$(cd /verif && ./check "$id" ${MUTANT_ARGS:-} 2>&1); c=$?
  echo "== $id exit=$c"; echo "$out" | grep -E "VIOLATION|signature|detail|INCONCLUSIVE|KNOWN" | cut -c1-400 | head -8
  [ $c -eq 1 ] || rc=1
done
exit $rc
