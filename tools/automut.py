#!/usr/bin/env python3
"""tools/automut.py <repo> <outdir> <count> <seed>

Generate single-site mechanical mutants of the non-test code of the crate (one patch file each, applicable with
`git apply`), sampled reproducibly: `count` mutants drawn with PRNG `seed` from all sites, stratified per file.
Operators: arithmetic and comparison operator swaps, boundary changes, constant changes, boolean/logic swaps,
min/max and field-getter swaps, removal of `.abs()`, deletion of a state-updating statement.
Used only for measuring the sensitivity of the checks (DESIGN section 8); nothing here is a check."""
import difflib, os, random, re, sys

repo, outdir, count, seed = sys.argv[1], sys.argv[2], int(sys.argv[3]), int(sys.argv[4])
files = []
for root in ("src/indicators", "src"):
    d = os.path.join(repo, root)
    for f in sorted(os.listdir(d)):
        if f.endswith(".rs") and f not in ("mod.rs", "lib.rs", "test_helper.rs"):
            files.append(os.path.join(root, f))

SWAPS = [
    (r" \+ ", [" - "]), (r" - ", [" + "]), (r" \* ", [" / "]), (r" / ", [" * "]),
    (r" \+= ", [" -= "]), (r" -= ", [" += "]),
    (r" < ", [" <= ", " > "]), (r" > ", [" >= ", " < "]), (r" <= ", [" < "]), (r" >= ", [" > "]),
    (r" == ", [" != "]), (r" != ", [" == "]),
    (r" && ", [" || "]), (r" \|\| ", [" && "]),
    (r"\.max\(", [".min("]), (r"\.min\(", [".max("]),
    (r"\.abs\(\)", [""]),
    (r"\.high\(\)", [".low()", ".close()"]), (r"\.low\(\)", [".high()", ".close()"]),
    (r"\.close\(\)", [".open()", ".high()"]), (r"\.volume\(\)", [".close()"]),
    (r"\btrue\b", ["false"]), (r"\bfalse\b", ["true"]),
    (r"\b0\.0\b", ["1.0"]), (r"\b1\.0\b", ["0.0", "2.0"]), (r"\b2\.0\b", ["1.0", "3.0"]),
    (r"\b100\.0\b", ["10.0"]), (r"\b50\.0\b", ["0.0"]), (r"\b3\.0\b", ["2.0"]), (r"\b0\.015\b", ["0.15"]), (r"\b0\.1\b", ["0.2"]),
    (r"(?<=[ \[(])1(?=[;\])\s,])", ["2", "0"]), (r"(?<=[ \[(])0(?=[;\])\s,])", ["1"]),
    (r"f64::INFINITY", ["f64::NEG_INFINITY"]), (r"f64::NEG_INFINITY", ["f64::INFINITY"]),
]
# second operator set (AUTOMUT_OPS=2): structural changes the first set cannot express
SWAPS2 = [
    (r"self\.period as f64", ["self.count as f64", "(self.period + 1) as f64"]), (r"self\.count as f64", ["self.period as f64", "(self.count + 1) as f64"]),
    (r"self\.period(?! as f64)(?=[ ;)\]{,])", ["(self.period + 1)", "self.period.saturating_sub(1).max(1)"]),
    (r"self\.count(?! as f64)(?= [<>=]=? )", ["(self.count + 1)"]),
    (r"\.is_sign_positive\(\)", [".is_sign_negative()"]),
    (r"\.sqrt\(\)", [""]),
    (r"\b0\.\.", ["1.."]),
    (r"^(\s*(?:\} else )?if )(?!let )(.+)( \{)$", [r"\1!(\2)\3", r"\1true\3", r"\1false\3"]),
    (r"\(([\w.]+(?:\(\))?) - ([\w.]+(?:\(\))?)\)", [r"(\2 - \1)"]),
    (r"self\.index\]", ["(self.index + 1) % self.period]"]),
    (r"\[0\]", ["[self.index]"]),
    (r"\.iter\(\)", [".iter().skip(1)", ".iter().rev()"]),
    (r"max3\(", ["f64::max(0.0 * "]) if False else (r"\bmax3\(([^,]+), ([^,]+), ([^)]+)\)", [r"max3(\1, \2, \2)", r"max3(\1, \3, \3)", r"max3(\2, \2, \3)"]),
    (r"&self\.deque\[self\.index\.\.self\.count\]", ["&self.deque[self.index + 1..self.count]", "&self.deque[self.index..self.count - 1]"]),
    (r"input\.close\(\) \+ input\.high\(\) \+ input\.low\(\)", ["input.close() + input.high() + input.high()", "input.close() + input.close() + input.low()", "input.open() + input.high() + input.low()"]),
]
if os.environ.get("AUTOMUT_OPS") == "2":
    SWAPS = SWAPS2
STMT = re.compile(r"^\s*self\.[\w.]+(\[[^\]]*\])? (=|\+=|-=) .*;\s*$")
SKIP = re.compile(r"^\s*(//|#\[|#!\[|use |pub use |pub mod |mod |impl<|impl |where|pub struct|pub trait|type |fn |pub fn |\}|\{)")

sites = []
for rel in files:
    src = open(os.path.join(repo, rel)).read().split("\n")
    end = len(src)
    for i, l in enumerate(src):
        if l.strip().startswith("#[cfg(test)]"):
            end = i
            break
    in_doc = False
    for i in range(end):
        l = src[i]
        if SKIP.match(l) or "T:" in l or "write!" in l or "derive" in l:
            continue
        for pat, reps in SWAPS:
            for m in re.finditer(pat, l):
                for r in reps:
                    sites.append((rel, i, m.start(), m.end(), m.expand(r) if "\\" in r else r, pat))
        if STMT.match(l) and os.environ.get("AUTOMUT_OPS") != "2":
            sites.append((rel, i, None, None, None, "delete-stmt"))

rng = random.Random(seed)
byfile = {}
for s in sites:
    byfile.setdefault(s[0], []).append(s)
for v in byfile.values():
    rng.shuffle(v)
order = []
while any(byfile.values()) and len(order) < count:
    for f in sorted(byfile):
        if byfile[f] and len(order) < count:
            order.append(byfile[f].pop())
os.makedirs(outdir, exist_ok=True)
index = open(os.path.join(outdir, "INDEX.tsv"), "w")
for n, (rel, i, a, b, r, pat) in enumerate(order):
    src = open(os.path.join(repo, rel)).read().split("\n")
    new = list(src)
    if pat == "delete-stmt":
        new[i] = re.sub(r"^(\s*)", r"\1// ", src[i], count=1)
        what = "delete `%s`" % src[i].strip()
    else:
        new[i] = src[i][:a] + r + src[i][b:]
        what = "`%s` -> `%s`" % (src[i].strip(), new[i].strip())
    diff = "".join(
        l + ("\n" if not l.endswith("\n") else "")
        for l in difflib.unified_diff(src, new, "a/" + rel, "b/" + rel, lineterm="", n=3)
    )
    name = "a%04d" % n
    open(os.path.join(outdir, name + ".diff"), "w").write(diff)
    index.write("%s\t%s:%d\t%s\n" % (name, rel, i + 1, what))
index.close()
print("sites", len(sites), "written", len(order))
