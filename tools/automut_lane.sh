#!/bin/bash
# tools/automut_lane.sh <lane-id> <start> <step> <dir>
# Mechanical-mutant sensitivity run (DESIGN section 8): for the mutants a<start>, a<start+step>, … in <dir>
# (made by tools/automut.py) — in an independent lane (own worktree of /repo HEAD, own copy of the harness):
#   apply; `cargo test --offline --lib` (mutants the crate's own suite kills, or that do not compile, are
#   dropped: the question is what survives the suite); then the quick checks in a fixed order, stopping at
#   the first one that reports a violation. Result lines go to <dir>/results.<lane>.tsv.
k="$1"; start="$2"; step="$3"; dir="$4"
L=/tmp/lane$k
git -C /repo worktree remove --force $L/repo 2>/dev/null; git -C /repo worktree prune
rm -rf $L; mkdir -p $L
git -C /repo worktree add --detach $L/repo HEAD -q || exit 2
rsync -a --exclude harness/fuzz/target --exclude harness/target/tmpcheck --exclude .git /verif/ $L/verif/
sed -i "s#path = \"/repo\"#path = \"$L/repo\"#" $L/verif/harness/Cargo.toml
export VERIF_REPO=$L/repo TACHECK_EVIDENCE_DIR=$L/evidence CARGO_NET_OFFLINE=true; mkdir -p $L/evidence
ORDER="${AUTOMUT_ORDER:-C01 C02 C03 C10 C11 C16 C04 C12 C09 C07 C08 C15 C14 C17 C05 C06 C18 C13}"
out=$dir/results.$k.tsv
n=$start
while [ -f $dir/$(printf 'a%04d' $n).diff ]; do
  name=$(printf 'a%04d' $n); n=$((n+step))
  grep -q "^$name	" $out 2>/dev/null && continue
  # AUTOMUT_ONLY=<file>: restrict the run to the mutants named in that file (re-run of earlier survivors)
  if [ -n "${AUTOMUT_ONLY:-}" ] && ! grep -qx "$name" "$AUTOMUT_ONLY"; then continue; fi
  git -C $L/repo checkout -- . ; git -C $L/repo clean -fdq src
  if ! git -C $L/repo apply $dir/$name.diff 2>/dev/null; then printf '%s\tPATCH-CONFLICT\n' $name >> $out; continue; fi
  t=$(cd $L/repo && timeout 900 cargo test --offline --lib 2>&1 | tail -5)
  if echo "$t" | grep -q "test result: FAILED"; then printf '%s\tKILLED-BY-SUITE\n' $name >> $out; continue; fi
  if ! echo "$t" | grep -q "test result: ok"; then printf '%s\tNO-COMPILE-OR-HANG\n' $name >> $out; continue; fi
  res=SURVIVED; inc=""
  for id in $ORDER; do
    o=$(cd $L/verif && timeout 3000 ./check $id --no-regress 2>&1); c=$?
    if [ $c -eq 1 ]; then res="CAUGHT	$id	$(echo "$o" | grep -oE 'signature=[^ ]+' | head -1)"; break; fi
    [ $c -ne 0 ] && inc="$inc $id:exit$c"
  done
  printf '%s\t%s\t%s\n' $name "$res" "$inc" >> $out
  find $L/verif/replays -name "found-*" -delete 2>/dev/null
done
git -C $L/repo checkout -- .
echo "AUTOMUT LANE $k DONE" >> $out
