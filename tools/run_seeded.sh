#!/bin/bash
# tools/run_seeded.sh <patch.diff> [IDs...]  — apply to /repo, run quick checks, revert; prints which checks flag it
patch="$1"; shift
ids="$*"; [ -z "$ids" ] && ids="C01 C02 C03 C04 C05 C06 C07 C08 C09 C10 C11 C12 C13 C14 C15 C16 C17 C18"
cd "${VERIF_REPO:-/repo}" || exit 2
[ -n "$(git status --porcelain --untracked-files=no)" ] && { echo "repo dirty" >&2; exit 2; }
git apply "$patch" || { echo "patch does not apply" >&2; exit 2; }
trap 'git -C "${VERIF_REPO:-/repo}" checkout -- . ; git -C "${VERIF_REPO:-/repo}" clean -fdq src; find ${VERIF_ROOT:-/verif}/replays -name "found-*" -newer /tmp/.seeded_stamp.$$ -delete 2>/dev/null' EXIT
touch /tmp/.seeded_stamp.$$
export TACHECK_EVIDENCE_DIR=${TACHECK_EVIDENCE_DIR:-/tmp/seeded-evidence}; mkdir -p $TACHECK_EVIDENCE_DIR
caught=""
for id in $ids; do
  out=$(cd "${VERIF_ROOT:-/verif}" && ./check "$id" --no-regress 2>&1); c=$?
  if [ $c -eq 1 ]; then caught="$caught $id"; echo "== $id CAUGHT: $(echo "$out" | grep -E "signature=" | head -1 | cut -c1-200)"; echo "     $(echo "$out" | grep -E "detail=" | head -1 | cut -c1-300)";
  elif [ $c -ne 0 ]; then echo "== $id exit=$c $(echo "$out" | grep -E "INCONCLUSIVE|error" | head -2 | cut -c1-200)"; fi
done
echo "CAUGHT_BY:$caught"
