#!/usr/bin/env python3
"""Markdown table of the seeded changes and which quick checks flag them (from seeded/*/meta.json: the full sweep at the
time the change was delivered, and — own_check_final — the own property's quick check of the final harness)."""
import json,glob,os,re
V=os.path.dirname(os.path.dirname(os.path.abspath(__file__)))
rows=[]
for d in sorted(glob.glob(V+'/seeded/*/meta.json')):
    m=json.load(open(d))
    notes=m.get('needs_to_manifest','')
    # first meaningful line of the notes as the summary
    lines=[l.strip('# ').strip() for l in notes.splitlines() if l.strip()]
    title=lines[0] if lines else ''
    title=re.sub(r'^C\d+\s*/\s*m\d+\s*[—–-]+\s*','',title)
    own=m.get('own_check_final',{}).get('flagged', m['caught_by_own_property_check'])
    caught=list(m['caught_by_quick_checks'])
    if own and m['breaks_property'] not in caught: caught=sorted(caught+[m['breaks_property']])
    rows.append((m['breaks_property'],m['name'],title[:110],' '.join(caught), 'yes' if own else 'NO'))
print("| seeded change | what it is | caught by (quick tier) | own property's check |")
print("|---|---|---|---|")
for p,n,t,c,o in rows:
    print(f"| {p}-{n} | {t} | {c or '—'} | {o} |")
tot=len(rows); own=sum(1 for r in rows if r[4]=='yes'); anyc=sum(1 for r in rows if r[3])
print(f"\n{tot} seeded changes kept; {anyc} flagged by at least one quick check; {own} flagged by the check of the property they were written against.")
