#!/usr/bin/env python3
"""Markdown table of the seeded changes and which quick checks flag them (from seeded/*/meta.json)."""
import json,glob,os,re
V=os.path.dirname(os.path.dirname(os.path.abspath(__file__)))
rows=[]
for d in sorted(glob.glob(V+'/seeded/*/meta.json')):
    m=json.load(open(d))
    notes=m.get('needs_to_manifest','')
    # first meaningful line of the notes as the summary
    lines=[l.strip('# ').strip() for l in notes.splitlines() if l.strip()]
    title=lines[0] if lines else ''
    title=re.sub(r'^C\d+\s*/\s*m\d+\s*[—–-]+\s*','',title)
    rows.append((m['breaks_property'],m['name'],title[:110],' '.join(m['caught_by_quick_checks']), 'yes' if m['caught_by_own_property_check'] else 'NO'))
print("| seeded change | what it is | caught by (quick tier) | own property's check |")
print("|---|---|---|---|")
for p,n,t,c,o in rows:
    print(f"| {p}-{n} | {t} | {c or '—'} | {o} |")
tot=len(rows); own=sum(1 for r in rows if r[4]=='yes'); anyc=sum(1 for r in rows if r[3])
print(f"\n{tot} seeded changes kept; {anyc} flagged by at least one quick check; {own} flagged by the check of the property they were written against.")
