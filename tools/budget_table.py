#!/usr/bin/env python3
"""Prints a markdown table of what the last run of every check covered (from evidence/*.json)."""
import json,glob,os
V=os.path.dirname(os.path.dirname(os.path.abspath(__file__)))
print("| id | tier | evaluations | distinct non-trivial | stages (generator: cases) | wall s |")
print("|----|------|-------------|----------------------|--------------------------|--------|")
for f in sorted(glob.glob(V+'/evidence/C*.json')):
    e=json.load(open(f)); c=e['coverage']
    st='; '.join(f"{s['stage']} ({s['generator'].split(' ')[0]}: {s['cases']:,})" for s in c.get('stages',[]))
    print(f"| {e['property_id']} | {e['tier']} | {c['evaluations']:,} | {c['distinct_nontrivial']:,} | {st} | {e['wall_s']:.1f} |")
