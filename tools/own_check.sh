#!/bin/bash
# tools/own_check.sh <lane-id> <list-file>: for each "<seed dir> <property> <name>" apply the patch in an
# independent lane and run only the quick check of the property the change was written against.
k="$1"; list="$2"
L=/tmp/lane$k
git -C /repo worktree remove --force $L/repo 2>/dev/null; git -C /repo worktree prune
rm -rf $L/repo; mkdir -p $L
git -C /repo worktree add --detach $L/repo HEAD -q || exit 2
rsync -a --delete --exclude harness/fuzz/target --exclude harness/target/tmpcheck --exclude .git /verif/ $L/verif/
sed -i "s#path = \"/repo\"#path = \"$L/repo\"#" $L/verif/harness/Cargo.toml
export VERIF_REPO=$L/repo TACHECK_EVIDENCE_DIR=$L/evidence; mkdir -p $L/evidence
while read -r src pid name; do
  [ -z "$src" ] && continue
  git -C $L/repo checkout -- . ; git -C $L/repo clean -fdq src
  if ! git -C $L/repo apply "$src/patch.diff" 2>/dev/null; then echo "OWN $pid-$name: PATCH-CONFLICT"; continue; fi
  out=$(cd $L/verif && ./check "$pid" --no-regress 2>&1); c=$?
  sig=$(echo "$out" | grep -oE "signature=[^ ]+" | head -1)
  echo "OWN $pid-$name: exit=$c $sig"
  find $L/verif/replays -name "found-*" -delete 2>/dev/null
done < "$list"
git -C $L/repo checkout -- .
echo "OWN-CHECK DONE"
