//! Uniform adapter over the 22 indicator types of `ta`.

use ta::indicators::*;
use ta::{Close, DataItem, High, Low, Next, Open, Period, Reset, Volume};

#[derive(Clone, Copy, Debug, PartialEq, Eq, Hash, PartialOrd, Ord, serde::Serialize, serde::Deserialize)]
pub enum Kind {
    Sma,
    Ema,
    Wma,
    Sd,
    Mad,
    Rsi,
    Min,
    Max,
    FastStoch,
    SlowStoch,
    Tr,
    Atr,
    Macd,
    Ppo,
    Cci,
    Er,
    Bb,
    Ce,
    Kc,
    Roc,
    Mfi,
    Obv,
}

pub const ALL_KINDS: [Kind; 22] = [
    Kind::Sma,
    Kind::Ema,
    Kind::Wma,
    Kind::Sd,
    Kind::Mad,
    Kind::Rsi,
    Kind::Min,
    Kind::Max,
    Kind::FastStoch,
    Kind::SlowStoch,
    Kind::Tr,
    Kind::Atr,
    Kind::Macd,
    Kind::Ppo,
    Kind::Cci,
    Kind::Er,
    Kind::Bb,
    Kind::Ce,
    Kind::Kc,
    Kind::Roc,
    Kind::Mfi,
    Kind::Obv,
];

pub const F_OPEN: u8 = 1;
pub const F_HIGH: u8 = 2;
pub const F_LOW: u8 = 4;
pub const F_CLOSE: u8 = 8;
pub const F_VOLUME: u8 = 16;

impl Kind {
    pub fn idx(self) -> usize {
        ALL_KINDS.iter().position(|&k| k == self).unwrap()
    }
    pub fn from_idx(i: usize) -> Kind {
        ALL_KINDS[i % 22]
    }
    /// NAME used by Display (from the property text).
    pub fn name(self) -> &'static str {
        match self {
            Kind::Sma => "SMA",
            Kind::Ema => "EMA",
            Kind::Wma => "WMA",
            Kind::Sd => "SD",
            Kind::Mad => "MAD",
            Kind::Rsi => "RSI",
            Kind::Min => "MIN",
            Kind::Max => "MAX",
            Kind::FastStoch => "FAST_STOCH",
            Kind::SlowStoch => "SLOW_STOCH",
            Kind::Tr => "TRUE_RANGE",
            Kind::Atr => "ATR",
            Kind::Macd => "MACD",
            Kind::Ppo => "PPO",
            Kind::Cci => "CCI",
            Kind::Er => "ER",
            Kind::Bb => "BB",
            Kind::Ce => "CE",
            Kind::Kc => "KC",
            Kind::Roc => "ROC",
            Kind::Mfi => "MFI",
            Kind::Obv => "OBV",
        }
    }
    pub fn from_name(s: &str) -> Option<Kind> {
        ALL_KINDS.iter().copied().find(|k| k.name() == s)
    }
    pub fn n_periods(self) -> usize {
        match self {
            Kind::Tr | Kind::Obv => 0,
            Kind::SlowStoch => 2,
            Kind::Macd | Kind::Ppo => 3,
            _ => 1,
        }
    }
    pub fn has_mult(self) -> bool {
        matches!(self, Kind::Bb | Kind::Ce | Kind::Kc)
    }
    /// implements Next<f64>
    pub fn scalar(self) -> bool {
        !matches!(self, Kind::Cci | Kind::Ce | Kind::Mfi | Kind::Obv)
    }
    /// implements the Period trait (single-period indicators + CE)
    pub fn has_period(self) -> bool {
        self.n_periods() == 1
    }
    /// which period arguments allocate a window of that size (index into periods)
    pub fn windowed(self, arg: usize) -> bool {
        match self {
            Kind::Ema | Kind::Rsi | Kind::Atr | Kind::Macd | Kind::Ppo | Kind::Kc | Kind::Tr | Kind::Obv => false,
            Kind::SlowStoch => arg == 0,
            _ => true,
        }
    }
    /// fields of a bar the indicator is documented to read on its bar path
    pub fn fields(self) -> u8 {
        match self {
            Kind::Sma | Kind::Ema | Kind::Wma | Kind::Sd | Kind::Mad | Kind::Rsi | Kind::Macd | Kind::Ppo | Kind::Er | Kind::Bb | Kind::Roc => F_CLOSE,
            Kind::Min => F_LOW,
            Kind::Max => F_HIGH,
            Kind::FastStoch | Kind::SlowStoch | Kind::Tr | Kind::Atr | Kind::Cci | Kind::Ce | Kind::Kc => F_HIGH | F_LOW | F_CLOSE,
            Kind::Mfi => F_HIGH | F_LOW | F_CLOSE | F_VOLUME,
            Kind::Obv => F_CLOSE | F_VOLUME,
        }
    }
    pub fn n_out(self) -> usize {
        match self {
            Kind::Macd | Kind::Ppo | Kind::Bb | Kind::Kc => 3,
            Kind::Ce => 2,
            _ => 1,
        }
    }
    pub fn default_params(self) -> Params {
        let (p, m): (&[usize], f64) = match self {
            Kind::Ema | Kind::Sma | Kind::Wma | Kind::Sd | Kind::Mad | Kind::Roc => (&[9], 0.0),
            Kind::Rsi | Kind::Atr | Kind::Er | Kind::Mfi | Kind::Min | Kind::Max | Kind::FastStoch => (&[14], 0.0),
            Kind::SlowStoch => (&[14, 3], 0.0),
            Kind::Macd | Kind::Ppo => (&[12, 26, 9], 0.0),
            Kind::Cci => (&[20], 0.0),
            Kind::Bb => (&[9], 2.0),
            Kind::Kc => (&[10], 2.0),
            Kind::Ce => (&[22], 3.0),
            Kind::Tr | Kind::Obv => (&[], 0.0),
        };
        Params::new(p, m)
    }
    /// window length w such that the output depends on the last w inputs only
    /// (None for recursive/EMA-based indicators)
    pub fn memory(self, n: usize) -> Option<usize> {
        match self {
            Kind::Sma | Kind::Wma | Kind::Sd | Kind::Mad | Kind::Min | Kind::Max | Kind::FastStoch | Kind::Bb | Kind::Cci => Some(n),
            Kind::Roc | Kind::Er | Kind::Mfi => Some(n + 1),
            _ => None,
        }
    }
}

#[derive(Clone, Copy, Debug, PartialEq)]
pub struct Params {
    pub p: [usize; 3],
    pub m: f64,
}

impl Params {
    pub fn new(p: &[usize], m: f64) -> Params {
        let mut a = [0usize; 3];
        for (i, &x) in p.iter().enumerate().take(3) {
            a[i] = x;
        }
        Params { p: a, m }
    }
    pub fn one(p: usize) -> Params {
        Params { p: [p, 0, 0], m: 0.0 }
    }
    pub fn sum_periods(&self, k: Kind) -> usize {
        self.p[..k.n_periods()].iter().sum()
    }
}

/// A bar with five independent fields (not necessarily consistent OHLC).
#[derive(Clone, Copy, Debug, PartialEq)]
pub struct RawBar {
    pub o: f64,
    pub h: f64,
    pub l: f64,
    pub c: f64,
    pub v: f64,
}
impl RawBar {
    pub fn flat(x: f64, v: f64) -> RawBar {
        RawBar { o: x, h: x, l: x, c: x, v }
    }
    pub fn hlcv(h: f64, l: f64, c: f64, v: f64) -> RawBar {
        RawBar { o: c, h, l, c, v }
    }
    pub fn tp(&self) -> f64 {
        (self.c + self.h + self.l) / 3.0
    }
    pub fn to_data_item(&self) -> Option<DataItem> {
        DataItem::builder().open(self.o).high(self.h).low(self.l).close(self.c).volume(self.v).build().ok()
    }
    pub fn is_finite(&self) -> bool {
        self.o.is_finite() && self.h.is_finite() && self.l.is_finite() && self.c.is_finite() && self.v.is_finite()
    }
    pub fn max_abs_price(&self) -> f64 {
        self.h.abs().max(self.l.abs()).max(self.c.abs())
    }
}
impl Open for RawBar {
    fn open(&self) -> f64 {
        self.o
    }
}
impl High for RawBar {
    fn high(&self) -> f64 {
        self.h
    }
}
impl Low for RawBar {
    fn low(&self) -> f64 {
        self.l
    }
}
impl Close for RawBar {
    fn close(&self) -> f64 {
        self.c
    }
}
impl Volume for RawBar {
    fn volume(&self) -> f64 {
        self.v
    }
}

// Minimal-trait bar types: an indicator that starts reading an undocumented field stops
// compiling against these (C10, compile-time part).
pub struct CloseOnly(pub f64);
impl Close for CloseOnly {
    fn close(&self) -> f64 {
        self.0
    }
}
pub struct LowOnly(pub f64);
impl Low for LowOnly {
    fn low(&self) -> f64 {
        self.0
    }
}
pub struct HighOnly(pub f64);
impl High for HighOnly {
    fn high(&self) -> f64 {
        self.0
    }
}
pub struct Hlc(pub f64, pub f64, pub f64);
impl High for Hlc {
    fn high(&self) -> f64 {
        self.0
    }
}
impl Low for Hlc {
    fn low(&self) -> f64 {
        self.1
    }
}
impl Close for Hlc {
    fn close(&self) -> f64 {
        self.2
    }
}
pub struct Hlcv(pub f64, pub f64, pub f64, pub f64);
impl High for Hlcv {
    fn high(&self) -> f64 {
        self.0
    }
}
impl Low for Hlcv {
    fn low(&self) -> f64 {
        self.1
    }
}
impl Close for Hlcv {
    fn close(&self) -> f64 {
        self.2
    }
}
impl Volume for Hlcv {
    fn volume(&self) -> f64 {
        self.3
    }
}
pub struct Cv(pub f64, pub f64);
impl Close for Cv {
    fn close(&self) -> f64 {
        self.0
    }
}
impl Volume for Cv {
    fn volume(&self) -> f64 {
        self.1
    }
}

#[derive(Clone, Copy, Debug, PartialEq)]
pub struct Out {
    pub v: [f64; 3],
    pub n: u8,
}
impl Out {
    pub fn one(x: f64) -> Out {
        Out { v: [x, 0.0, 0.0], n: 1 }
    }
    pub fn two(a: f64, b: f64) -> Out {
        Out { v: [a, b, 0.0], n: 2 }
    }
    pub fn three(a: f64, b: f64, c: f64) -> Out {
        Out { v: [a, b, c], n: 3 }
    }
    pub fn vals(&self) -> &[f64] {
        &self.v[..self.n as usize]
    }
    pub fn bits_eq(&self, o: &Out) -> bool {
        self.n == o.n && self.vals().iter().zip(o.vals()).all(|(a, b)| a.to_bits() == b.to_bits())
    }
    pub fn x(&self) -> f64 {
        self.v[0]
    }
}

#[derive(Clone, Debug)]
pub enum Ind {
    Sma(SimpleMovingAverage),
    Ema(ExponentialMovingAverage),
    Wma(WeightedMovingAverage),
    Sd(StandardDeviation),
    Mad(MeanAbsoluteDeviation),
    Rsi(RelativeStrengthIndex),
    Min(Minimum),
    Max(Maximum),
    FastStoch(FastStochastic),
    SlowStoch(SlowStochastic),
    Tr(TrueRange),
    Atr(AverageTrueRange),
    Macd(MovingAverageConvergenceDivergence),
    Ppo(PercentagePriceOscillator),
    Cci(CommodityChannelIndex),
    Er(EfficiencyRatio),
    Bb(BollingerBands),
    Ce(ChandelierExit),
    Kc(KeltnerChannel),
    Roc(RateOfChange),
    Mfi(MoneyFlowIndex),
    Obv(OnBalanceVolume),
}

macro_rules! each {
    ($self:expr, $i:ident => $e:expr) => {
        match $self {
            Ind::Sma($i) => $e,
            Ind::Ema($i) => $e,
            Ind::Wma($i) => $e,
            Ind::Sd($i) => $e,
            Ind::Mad($i) => $e,
            Ind::Rsi($i) => $e,
            Ind::Min($i) => $e,
            Ind::Max($i) => $e,
            Ind::FastStoch($i) => $e,
            Ind::SlowStoch($i) => $e,
            Ind::Tr($i) => $e,
            Ind::Atr($i) => $e,
            Ind::Macd($i) => $e,
            Ind::Ppo($i) => $e,
            Ind::Cci($i) => $e,
            Ind::Er($i) => $e,
            Ind::Bb($i) => $e,
            Ind::Ce($i) => $e,
            Ind::Kc($i) => $e,
            Ind::Roc($i) => $e,
            Ind::Mfi($i) => $e,
            Ind::Obv($i) => $e,
        }
    };
}

impl Ind {
    pub fn build(k: Kind, pr: &Params) -> Result<Ind, ta::errors::TaError> {
        let p = pr.p;
        Ok(match k {
            Kind::Sma => Ind::Sma(SimpleMovingAverage::new(p[0])?),
            Kind::Ema => Ind::Ema(ExponentialMovingAverage::new(p[0])?),
            Kind::Wma => Ind::Wma(WeightedMovingAverage::new(p[0])?),
            Kind::Sd => Ind::Sd(StandardDeviation::new(p[0])?),
            Kind::Mad => Ind::Mad(MeanAbsoluteDeviation::new(p[0])?),
            Kind::Rsi => Ind::Rsi(RelativeStrengthIndex::new(p[0])?),
            Kind::Min => Ind::Min(Minimum::new(p[0])?),
            Kind::Max => Ind::Max(Maximum::new(p[0])?),
            Kind::FastStoch => Ind::FastStoch(FastStochastic::new(p[0])?),
            Kind::SlowStoch => Ind::SlowStoch(SlowStochastic::new(p[0], p[1])?),
            Kind::Tr => Ind::Tr(TrueRange::new()),
            Kind::Atr => Ind::Atr(AverageTrueRange::new(p[0])?),
            Kind::Macd => Ind::Macd(MovingAverageConvergenceDivergence::new(p[0], p[1], p[2])?),
            Kind::Ppo => Ind::Ppo(PercentagePriceOscillator::new(p[0], p[1], p[2])?),
            Kind::Cci => Ind::Cci(CommodityChannelIndex::new(p[0])?),
            Kind::Er => Ind::Er(EfficiencyRatio::new(p[0])?),
            Kind::Bb => Ind::Bb(BollingerBands::new(p[0], pr.m)?),
            Kind::Ce => Ind::Ce(ChandelierExit::new(p[0], pr.m)?),
            Kind::Kc => Ind::Kc(KeltnerChannel::new(p[0], pr.m)?),
            Kind::Roc => Ind::Roc(RateOfChange::new(p[0])?),
            Kind::Mfi => Ind::Mfi(MoneyFlowIndex::new(p[0])?),
            Kind::Obv => Ind::Obv(OnBalanceVolume::new()),
        })
    }

    pub fn default_of(k: Kind) -> Ind {
        match k {
            Kind::Sma => Ind::Sma(Default::default()),
            Kind::Ema => Ind::Ema(Default::default()),
            Kind::Wma => Ind::Wma(Default::default()),
            Kind::Sd => Ind::Sd(Default::default()),
            Kind::Mad => Ind::Mad(Default::default()),
            Kind::Rsi => Ind::Rsi(Default::default()),
            Kind::Min => Ind::Min(Default::default()),
            Kind::Max => Ind::Max(Default::default()),
            Kind::FastStoch => Ind::FastStoch(Default::default()),
            Kind::SlowStoch => Ind::SlowStoch(Default::default()),
            Kind::Tr => Ind::Tr(Default::default()),
            Kind::Atr => Ind::Atr(Default::default()),
            Kind::Macd => Ind::Macd(Default::default()),
            Kind::Ppo => Ind::Ppo(Default::default()),
            Kind::Cci => Ind::Cci(Default::default()),
            Kind::Er => Ind::Er(Default::default()),
            Kind::Bb => Ind::Bb(Default::default()),
            Kind::Ce => Ind::Ce(Default::default()),
            Kind::Kc => Ind::Kc(Default::default()),
            Kind::Roc => Ind::Roc(Default::default()),
            Kind::Mfi => Ind::Mfi(Default::default()),
            Kind::Obv => Ind::Obv(Default::default()),
        }
    }

    pub fn kind(&self) -> Kind {
        match self {
            Ind::Sma(_) => Kind::Sma,
            Ind::Ema(_) => Kind::Ema,
            Ind::Wma(_) => Kind::Wma,
            Ind::Sd(_) => Kind::Sd,
            Ind::Mad(_) => Kind::Mad,
            Ind::Rsi(_) => Kind::Rsi,
            Ind::Min(_) => Kind::Min,
            Ind::Max(_) => Kind::Max,
            Ind::FastStoch(_) => Kind::FastStoch,
            Ind::SlowStoch(_) => Kind::SlowStoch,
            Ind::Tr(_) => Kind::Tr,
            Ind::Atr(_) => Kind::Atr,
            Ind::Macd(_) => Kind::Macd,
            Ind::Ppo(_) => Kind::Ppo,
            Ind::Cci(_) => Kind::Cci,
            Ind::Er(_) => Kind::Er,
            Ind::Bb(_) => Kind::Bb,
            Ind::Ce(_) => Kind::Ce,
            Ind::Kc(_) => Kind::Kc,
            Ind::Roc(_) => Kind::Roc,
            Ind::Mfi(_) => Kind::Mfi,
            Ind::Obv(_) => Kind::Obv,
        }
    }

    /// Next<f64>; panics (harness bug) for kinds without a scalar path.
    pub fn next_scalar(&mut self, x: f64) -> Out {
        match self {
            Ind::Sma(i) => Out::one(i.next(x)),
            Ind::Ema(i) => Out::one(i.next(x)),
            Ind::Wma(i) => Out::one(i.next(x)),
            Ind::Sd(i) => Out::one(i.next(x)),
            Ind::Mad(i) => Out::one(i.next(x)),
            Ind::Rsi(i) => Out::one(i.next(x)),
            Ind::Min(i) => Out::one(i.next(x)),
            Ind::Max(i) => Out::one(i.next(x)),
            Ind::FastStoch(i) => Out::one(i.next(x)),
            Ind::SlowStoch(i) => Out::one(i.next(x)),
            Ind::Tr(i) => Out::one(i.next(x)),
            Ind::Atr(i) => Out::one(i.next(x)),
            Ind::Macd(i) => {
                let o = i.next(x);
                Out::three(o.macd, o.signal, o.histogram)
            }
            Ind::Ppo(i) => {
                let o = i.next(x);
                Out::three(o.ppo, o.signal, o.histogram)
            }
            Ind::Er(i) => Out::one(i.next(x)),
            Ind::Bb(i) => {
                let o = i.next(x);
                Out::three(o.average, o.upper, o.lower)
            }
            Ind::Kc(i) => {
                let o = i.next(x);
                Out::three(o.average, o.upper, o.lower)
            }
            Ind::Roc(i) => Out::one(i.next(x)),
            Ind::Cci(_) | Ind::Ce(_) | Ind::Mfi(_) | Ind::Obv(_) => panic!("HARNESS: no scalar path"),
        }
    }

    pub fn next_bar<B: Open + High + Low + Close + Volume>(&mut self, b: &B) -> Out {
        match self {
            Ind::Sma(i) => Out::one(i.next(b)),
            Ind::Ema(i) => Out::one(i.next(b)),
            Ind::Wma(i) => Out::one(i.next(b)),
            Ind::Sd(i) => Out::one(i.next(b)),
            Ind::Mad(i) => Out::one(i.next(b)),
            Ind::Rsi(i) => Out::one(i.next(b)),
            Ind::Min(i) => Out::one(i.next(b)),
            Ind::Max(i) => Out::one(i.next(b)),
            Ind::FastStoch(i) => Out::one(i.next(b)),
            Ind::SlowStoch(i) => Out::one(i.next(b)),
            Ind::Tr(i) => Out::one(i.next(b)),
            Ind::Atr(i) => Out::one(i.next(b)),
            Ind::Macd(i) => {
                let o = i.next(b);
                Out::three(o.macd, o.signal, o.histogram)
            }
            Ind::Ppo(i) => {
                let o = i.next(b);
                Out::three(o.ppo, o.signal, o.histogram)
            }
            Ind::Cci(i) => Out::one(i.next(b)),
            Ind::Er(i) => Out::one(i.next(b)),
            Ind::Bb(i) => {
                let o = i.next(b);
                Out::three(o.average, o.upper, o.lower)
            }
            Ind::Ce(i) => {
                let o = i.next(b);
                Out::two(o.long, o.short)
            }
            Ind::Kc(i) => {
                let o = i.next(b);
                Out::three(o.average, o.upper, o.lower)
            }
            Ind::Roc(i) => Out::one(i.next(b)),
            Ind::Mfi(i) => Out::one(i.next(b)),
            Ind::Obv(i) => Out::one(i.next(b)),
        }
    }

    pub fn reset(&mut self) {
        each!(self, i => i.reset())
    }
    /// `self.clone_from(source)` on the inner indicator types (same kind required); falls back to
    /// replacing self by a clone when the kinds differ
    pub fn clone_from_same(&mut self, src: &Ind) {
        macro_rules! cf {
            ($($v:ident),*) => {
                match (&mut *self, src) {
                    $( (Ind::$v(a), Ind::$v(b)) => a.clone_from(b), )*
                    _ => *self = src.clone(),
                }
            };
        }
        cf!(Sma, Ema, Wma, Sd, Mad, Rsi, Min, Max, FastStoch, SlowStoch, Tr, Atr, Macd, Ppo, Cci, Er, Bb, Ce, Kc, Roc, Mfi, Obv);
    }
    pub fn display(&self) -> String {
        each!(self, i => format!("{}", i))
    }
    pub fn debug(&self) -> String {
        each!(self, i => format!("{:?}", i))
    }
    /// Display and Debug under the formatter's other settings (width narrower and wider than the text, fill,
    /// alignment, precision, sign, alternate): returns the plain text and how many of the padded renderings
    /// do not contain it
    pub fn display_variants(&self) -> (String, usize) {
        each!(self, i => {
            let plain = format!("{}", i);
            let all = [
                format!("{:1}", i),
                format!("{:<10}", i),
                format!("{:>3}", i),
                format!("{:^7}", i),
                format!("{:*<60}", i),
                format!("{:>60}", i),
                format!("{:^61}", i),
                format!("{:.3}", i),
                format!("{:+}", i),
                format!("{:08}", i),
                format!("{:#}", i),
            ];
            let _ = format!("{:#?}", i);
            let _ = format!("{:10?}", i);
            let bad = all.iter().filter(|s| !s.contains(&plain)).count();
            (plain, bad)
        })
    }
    /// Period trait (None where not implemented)
    pub fn period(&self) -> Option<usize> {
        match self {
            Ind::Sma(i) => Some(i.period()),
            Ind::Ema(i) => Some(i.period()),
            Ind::Wma(i) => Some(i.period()),
            Ind::Sd(i) => Some(i.period()),
            Ind::Mad(i) => Some(i.period()),
            Ind::Rsi(i) => Some(i.period()),
            Ind::Min(i) => Some(i.period()),
            Ind::Max(i) => Some(i.period()),
            Ind::FastStoch(i) => Some(i.period()),
            Ind::Atr(i) => Some(i.period()),
            Ind::Cci(i) => Some(i.period()),
            Ind::Er(i) => Some(i.period()),
            Ind::Bb(i) => Some(i.period()),
            Ind::Ce(i) => Some(i.period()),
            Ind::Kc(i) => Some(i.period()),
            Ind::Roc(i) => Some(i.period()),
            Ind::Mfi(i) => Some(i.period()),
            Ind::SlowStoch(_) | Ind::Tr(_) | Ind::Macd(_) | Ind::Ppo(_) | Ind::Obv(_) => None,
        }
    }
    pub fn multiplier(&self) -> Option<f64> {
        match self {
            Ind::Bb(i) => Some(i.multiplier()),
            Ind::Ce(i) => Some(i.multiplier()),
            Ind::Kc(i) => Some(i.multiplier()),
            _ => None,
        }
    }

    #[cfg(feature = "serde")]
    pub fn ser(&self) -> Result<Vec<u8>, String> {
        each!(self, i => bincode::serialize(i).map_err(|e| e.to_string()))
    }
    #[cfg(feature = "serde")]
    pub fn ser_size(&self) -> Result<u64, String> {
        each!(self, i => bincode::serialized_size(i).map_err(|e| e.to_string()))
    }
    /// `reader`: through `bincode::deserialize_from` (an `io::Read` source, nothing to borrow from) instead of
    /// `bincode::deserialize`; `framed`: the indicator sits between two other values in the same payload (as it
    /// would inside a user's checkpoint struct), which must come back intact — a deserializer that consumes
    /// more or fewer bytes than the serializer wrote corrupts its neighbours, not itself
    #[cfg(feature = "serde")]
    pub fn roundtrip_via(&self, reader: bool, framed: bool) -> Result<Ind, String> {
        fn d<T: serde::de::DeserializeOwned>(b: &[u8], reader: bool) -> Result<T, String> {
            if reader {
                let mut src: &[u8] = b;
                let v = bincode::deserialize_from(&mut src).map_err(|e| format!("deserialize_from(reader): {}", e))?;
                if !src.is_empty() {
                    return Err(format!("{} bytes of the payload were left unread", src.len()));
                }
                Ok(v)
            } else {
                bincode::deserialize(b).map_err(|e| e.to_string())
            }
        }
        const HEAD: u64 = 0x1122_3344_5566_7788;
        const TAIL: (u64, f64) = (0xA5A5_5A5A_DEAD_BEEF, -123.456);
        macro_rules! rt {
            ($($v:ident),*) => {
                match self {
                    $( Ind::$v(i) => {
                        if framed {
                            let bytes = bincode::serialize(&(HEAD, i, TAIL)).map_err(|e| e.to_string())?;
                            let (h, r, t): (u64, _, (u64, f64)) = d(&bytes, reader)?;
                            if h != HEAD || t.0 != TAIL.0 || t.1.to_bits() != TAIL.1.to_bits() {
                                return Err(format!("values serialized next to the indicator in the same payload came back changed: head {:#x} tail {:?}", h, t));
                            }
                            Ind::$v(r)
                        } else {
                            let bytes = bincode::serialize(i).map_err(|e| e.to_string())?;
                            Ind::$v(d(&bytes, reader)?)
                        }
                    } )*
                }
            };
        }
        Ok(rt!(Sma, Ema, Wma, Sd, Mad, Rsi, Min, Max, FastStoch, SlowStoch, Tr, Atr, Macd, Ppo, Cci, Er, Bb, Ce, Kc, Roc, Mfi, Obv))
    }
    /// Round trip through a second, self-describing serde format (serde_json text; `via_value`: text ->
    /// `serde_json::Value` -> instance, i.e. the buffered path with map keys in another order, as untagged /
    /// flattened containers and `from_value` users take). JSON has no NaN/inf (they are written as `null`), so
    /// `Ok(None)` = "this state is not representable in the format": the text contains a `null` and does not parse.
    #[cfg(feature = "serde")]
    pub fn roundtrip_json(&self, via_value: bool) -> Result<Option<Ind>, String> {
        macro_rules! rt {
            ($($v:ident),*) => {
                match self {
                    $( Ind::$v(i) => {
                        let text = serde_json::to_string(i).map_err(|e| format!("serde_json::to_string: {}", e))?;
                        let has_null = text.contains("null");
                        let r = if via_value {
                            serde_json::from_str::<serde_json::Value>(&text).and_then(serde_json::from_value)
                        } else {
                            serde_json::from_str(&text)
                        };
                        match r {
                            Ok(x) => Some(Ind::$v(x)),
                            Err(_) if has_null => None,
                            Err(e) => return Err(format!("serde_json round trip of {} failed: {}", text.chars().take(300).collect::<String>(), e)),
                        }
                    } )*
                }
            };
        }
        Ok(rt!(Sma, Ema, Wma, Sd, Mad, Rsi, Min, Max, FastStoch, SlowStoch, Tr, Atr, Macd, Ppo, Cci, Er, Bb, Ce, Kc, Roc, Mfi, Obv))
    }
    #[cfg(feature = "serde")]
    pub fn de(k: Kind, bytes: &[u8]) -> Result<Ind, String> {
        fn d<'a, T: serde::Deserialize<'a>>(b: &'a [u8]) -> Result<T, String> {
            bincode::deserialize(b).map_err(|e| e.to_string())
        }
        Ok(match k {
            Kind::Sma => Ind::Sma(d(bytes)?),
            Kind::Ema => Ind::Ema(d(bytes)?),
            Kind::Wma => Ind::Wma(d(bytes)?),
            Kind::Sd => Ind::Sd(d(bytes)?),
            Kind::Mad => Ind::Mad(d(bytes)?),
            Kind::Rsi => Ind::Rsi(d(bytes)?),
            Kind::Min => Ind::Min(d(bytes)?),
            Kind::Max => Ind::Max(d(bytes)?),
            Kind::FastStoch => Ind::FastStoch(d(bytes)?),
            Kind::SlowStoch => Ind::SlowStoch(d(bytes)?),
            Kind::Tr => Ind::Tr(d(bytes)?),
            Kind::Atr => Ind::Atr(d(bytes)?),
            Kind::Macd => Ind::Macd(d(bytes)?),
            Kind::Ppo => Ind::Ppo(d(bytes)?),
            Kind::Cci => Ind::Cci(d(bytes)?),
            Kind::Er => Ind::Er(d(bytes)?),
            Kind::Bb => Ind::Bb(d(bytes)?),
            Kind::Ce => Ind::Ce(d(bytes)?),
            Kind::Kc => Ind::Kc(d(bytes)?),
            Kind::Roc => Ind::Roc(d(bytes)?),
            Kind::Mfi => Ind::Mfi(d(bytes)?),
            Kind::Obv => Ind::Obv(d(bytes)?),
        })
    }
}

/// Expected Display text built from the constructor arguments (C11).
pub fn expected_display(k: Kind, pr: &Params) -> String {
    match k {
        Kind::Tr => "TRUE_RANGE()".to_string(),
        Kind::Obv => "OBV".to_string(),
        Kind::SlowStoch => format!("SLOW_STOCH({}, {})", pr.p[0], pr.p[1]),
        Kind::Macd | Kind::Ppo => format!("{}({}, {}, {})", k.name(), pr.p[0], pr.p[1], pr.p[2]),
        Kind::Bb | Kind::Ce | Kind::Kc => format!("{}({}, {})", k.name(), pr.p[0], pr.m),
        _ => format!("{}({})", k.name(), pr.p[0]),
    }
}

/// Every indicator instantiated on the minimal-trait bar types. Only compiled with the (off by default)
/// feature `trait_probe`: a change of a trait bound must not stop the harness from building — that would turn
/// every check into "inconclusive" instead of letting C10's perturbation twin report the violation at run time
/// (found with seeded change C10-m16, DESIGN section 8).
#[cfg(feature = "trait_probe")]
#[allow(dead_code)]
pub fn minimal_trait_instantiation() -> f64 {
    let c = CloseOnly(1.0);
    let mut acc = 0.0;
    acc += SimpleMovingAverage::new(2).unwrap().next(&c);
    acc += ExponentialMovingAverage::new(2).unwrap().next(&c);
    acc += WeightedMovingAverage::new(2).unwrap().next(&c);
    acc += StandardDeviation::new(2).unwrap().next(&c);
    acc += MeanAbsoluteDeviation::new(2).unwrap().next(&c);
    acc += RelativeStrengthIndex::new(2).unwrap().next(&c);
    acc += MovingAverageConvergenceDivergence::new(2, 3, 2).unwrap().next(&c).macd;
    acc += PercentagePriceOscillator::new(2, 3, 2).unwrap().next(&c).ppo;
    acc += EfficiencyRatio::new(2).unwrap().next(&c);
    acc += BollingerBands::new(2, 2.0).unwrap().next(&c).average;
    acc += RateOfChange::new(2).unwrap().next(&c);
    acc += Minimum::new(2).unwrap().next(&LowOnly(1.0));
    acc += Maximum::new(2).unwrap().next(&HighOnly(1.0));
    let h = Hlc(2.0, 1.0, 1.5);
    acc += FastStochastic::new(2).unwrap().next(&h);
    acc += SlowStochastic::new(2, 2).unwrap().next(&h);
    acc += TrueRange::new().next(&h);
    acc += AverageTrueRange::new(2).unwrap().next(&h);
    acc += KeltnerChannel::new(2, 2.0).unwrap().next(&h).average;
    acc += ChandelierExit::new(2, 2.0).unwrap().next(&h).long;
    acc += CommodityChannelIndex::new(2).unwrap().next(&h);
    acc += MoneyFlowIndex::new(2).unwrap().next(&Hlcv(2.0, 1.0, 1.5, 10.0));
    acc += OnBalanceVolume::new().next(&Cv(1.0, 10.0));
    acc
}
