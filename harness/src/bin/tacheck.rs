use tacheck::fw::*;
use tacheck::props;

fn usage() -> ! {
    eprintln!("usage: tacheck <ID> [--tier quick|thorough] [--replay <file>] [--strict] [--no-regress]");
    std::process::exit(2);
}

type RunFn = fn(&mut Global);

#[cfg(not(feature = "serde"))]
fn needs_serde(_g: &mut Global) {
    eprintln!("INCONCLUSIVE this property needs the serde build of the harness (use ./check)");
    std::process::exit(2);
}

fn table() -> Vec<(&'static str, RunFn)> {
    #[cfg(feature = "serde")]
    let serde_checks: Vec<(&'static str, RunFn)> = vec![("C06", props::c06::run as RunFn), ("C18", props::c18::run as RunFn)];
    #[cfg(not(feature = "serde"))]
    let serde_checks: Vec<(&'static str, RunFn)> = vec![("C06", needs_serde as RunFn), ("C18", needs_serde as RunFn)];
    let mut v = base_table();
    v.extend(serde_checks);
    v
}

fn base_table() -> Vec<(&'static str, RunFn)> {
    vec![
        ("C01", props::c01::run as RunFn),
        ("C02", props::c02::run as RunFn),
        ("C03", props::c03::run as RunFn),
        ("C04", props::c04::run as RunFn),
        ("C05", props::c05::run as RunFn),
        ("C07", props::c07::run as RunFn),
        ("C08", props::c08::run as RunFn),
        ("C09", props::c09::run as RunFn),
        ("C10", props::c10::run as RunFn),
        ("C11", props::c11::run as RunFn),
        ("C12", props::c12::run as RunFn),
        ("C13", props::c13::run as RunFn),
        ("C14", props::c14::run as RunFn),
        ("C15", props::c15::run as RunFn),
        ("C16", props::c16::run as RunFn),
        ("C17", props::c17::run as RunFn),
    ]
}

fn main() {
    let args: Vec<String> = std::env::args().skip(1).collect();
    if args.is_empty() {
        usage();
    }
    let id_arg = args[0].clone();
    let mut tier = match std::env::var("VERIF_TIER").ok().as_deref() {
        Some("thorough") => Tier::Thorough,
        _ => Tier::Quick,
    };
    let mut replay: Option<String> = None;
    let mut strict = false;
    let mut regress = true;
    let mut i = 1;
    while i < args.len() {
        match args[i].as_str() {
            "--tier" => {
                i += 1;
                tier = match args.get(i).map(|s| s.as_str()) {
                    Some("quick") => Tier::Quick,
                    Some("thorough") => Tier::Thorough,
                    _ => usage(),
                };
            }
            "--replay" => {
                i += 1;
                replay = Some(args.get(i).cloned().unwrap_or_else(|| usage()));
            }
            "--strict" => strict = true,
            "--no-regress" => regress = false,
            _ => usage(),
        }
        i += 1;
    }
    let seed = match std::env::var("VERIF_SEED").ok().and_then(|s| s.trim().parse::<i128>().ok()) {
        Some(0) | None => 1u64,
        Some(v) => (v as i64) as u64,
    };
    let seed = if seed == 0 { 1 } else { seed };
    let verif_dir = std::env::var("VERIF_DIR").unwrap_or_else(|_| "/verif".to_string());
    let (id, run) = match table().into_iter().find(|(n, _)| *n == id_arg) {
        Some(x) => x,
        None => {
            eprintln!("unknown property {}", id_arg);
            std::process::exit(2);
        }
    };
    install_panic_hook();
    // watchdog: a hang is inconclusive (exit 2), never a violation
    let limit = std::env::var("VERIF_WATCHDOG_S").ok().and_then(|s| s.parse::<u64>().ok()).unwrap_or(match tier {
        Tier::Quick => 1500,
        Tier::Thorough => 6 * 3600,
    });
    std::thread::spawn(move || {
        std::thread::sleep(std::time::Duration::from_secs(limit));
        eprintln!("INCONCLUSIVE watchdog: run exceeded {} s", limit);
        std::process::exit(2);
    });

    if let Some(path) = replay {
        std::process::exit(replay_file(id, run, tier, seed, &verif_dir, &path, true));
    }
    // regression tier: replay every saved case first
    if regress {
        let g0 = Global::new(id, tier, seed, Mode::Run, verif_dir.clone(), strict);
        let files = g0.regression_files();
        drop(g0);
        let mut bad = 0;
        std::env::set_var("TACHECK_QUIET_REPLAY", "1");
        for f in &files {
            let c = replay_file(id, run, tier, seed, &verif_dir, f, false);
            if c == 1 {
                bad += 1;
            } else if c != 0 {
                std::process::exit(c);
            }
        }
        if !files.is_empty() {
            println!("{}: replayed {} saved case(s), {} failing", id, files.len(), bad);
        }
        if bad > 0 {
            // still write evidence via a normal (short-circuited) run? No: a returning regression is a violation.
            std::process::exit(1);
        }
    }
    let mut g = Global::new(id, tier, seed, Mode::Run, verif_dir, strict);
    run(&mut g);
    std::process::exit(g.finish());
}

fn replay_file(id: &'static str, run: RunFn, tier: Tier, seed: u64, verif_dir: &str, path: &str, strict: bool) -> i32 {
    let text = match std::fs::read_to_string(path) {
        Ok(t) => t,
        Err(e) => {
            eprintln!("INCONCLUSIVE cannot read replay {}: {}", path, e);
            return 2;
        }
    };
    let v: serde_json::Value = match serde_json::from_str(&text) {
        Ok(v) => v,
        Err(e) => {
            eprintln!("INCONCLUSIVE bad replay file {}: {}", path, e);
            return 2;
        }
    };
    if v["property"].as_str() != Some(id) {
        eprintln!("INCONCLUSIVE replay file {} is for property {:?}", path, v["property"]);
        return 2;
    }
    let stage = v["stage"].as_str().unwrap_or("").to_string();
    std::env::set_var("TACHECK_REPLAY_PATH", path);
    // --replay given explicitly: strict (known findings are reported as violations too, so a
    // replay file of a known finding demonstrates the defect); regression tier: non-strict.
    let mut g = Global::new(id, tier, seed, Mode::Replay { stage, case: v["case"].clone() }, verif_dir.to_string(), strict);
    run(&mut g);
    g.finish()
}
