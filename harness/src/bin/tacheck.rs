fn main(){}
