//! Counting global allocator with per-thread live-byte counters (C18).
use std::alloc::{GlobalAlloc, Layout, System};
use std::cell::Cell;

pub struct Counting;

thread_local! {
    static LIVE: Cell<isize> = const { Cell::new(0) };
    static ALLOCS: Cell<usize> = const { Cell::new(0) };
}

unsafe impl GlobalAlloc for Counting {
    unsafe fn alloc(&self, l: Layout) -> *mut u8 {
        let _ = LIVE.try_with(|c| c.set(c.get() + l.size() as isize));
        let _ = ALLOCS.try_with(|c| c.set(c.get() + 1));
        System.alloc(l)
    }
    unsafe fn dealloc(&self, p: *mut u8, l: Layout) {
        let _ = LIVE.try_with(|c| c.set(c.get() - l.size() as isize));
        System.dealloc(p, l)
    }
    unsafe fn alloc_zeroed(&self, l: Layout) -> *mut u8 {
        let _ = LIVE.try_with(|c| c.set(c.get() + l.size() as isize));
        let _ = ALLOCS.try_with(|c| c.set(c.get() + 1));
        System.alloc_zeroed(l)
    }
    unsafe fn realloc(&self, p: *mut u8, l: Layout, new: usize) -> *mut u8 {
        let _ = LIVE.try_with(|c| c.set(c.get() + new as isize - l.size() as isize));
        let _ = ALLOCS.try_with(|c| c.set(c.get() + 1));
        System.realloc(p, l, new)
    }
}

#[global_allocator]
static GLOBAL: Counting = Counting;

/// live heap bytes allocated minus freed by the calling thread
pub fn live() -> isize {
    LIVE.try_with(|c| c.get()).unwrap_or(0)
}
/// number of allocation calls made by the calling thread
pub fn allocs() -> usize {
    ALLOCS.try_with(|c| c.get()).unwrap_or(0)
}
