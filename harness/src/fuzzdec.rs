//! Byte-level decoders shared by the libFuzzer targets and the harness (so a crash artifact is
//! replayed on the stable toolchain by decoding it into the same Case the proptest stages use).

use crate::adapter::{Kind, RawBar, ALL_KINDS};
use crate::fw::X;
use crate::gen::{Cfg, Inp, SPECIALS};

pub struct R<'a> {
    b: &'a [u8],
    i: usize,
}
impl<'a> R<'a> {
    pub fn new(b: &'a [u8]) -> R<'a> {
        R { b, i: 0 }
    }
    pub fn left(&self) -> usize {
        self.b.len().saturating_sub(self.i)
    }
    pub fn u8(&mut self) -> u8 {
        let v = self.b.get(self.i).copied().unwrap_or(0);
        self.i += 1;
        v
    }
    pub fn u16(&mut self) -> u16 {
        (self.u8() as u16) | ((self.u8() as u16) << 8)
    }
    /// a value: 0..=11 special, 12..=63 small table, otherwise 2 more bytes → fixed-point
    pub fn val(&mut self) -> f64 {
        let t = self.u8();
        if (t as usize) < SPECIALS.len() {
            SPECIALS[t as usize]
        } else if t < 64 {
            const TBL: [f64; 13] = [1.0, 2.0, 2.5, 3.0, 4.0, 5.0, 10.0, 0.1, 100.0, -1.0, -2.5, 85.18, 1e6];
            TBL[(t as usize - 12) % 13]
        } else if t >= 248 {
            // a raw 64-bit pattern taken verbatim from the input: lets the fuzzer's comparison tracing
            // place constants the code compares against (thresholds, sentinels) into the data
            let mut w = [0u8; 8];
            for x in w.iter_mut() {
                *x = self.u8();
            }
            f64::from_bits(u64::from_le_bytes(w))
        } else {
            let r = self.u16() as f64;
            let s = if t & 1 == 0 { 1.0 } else { -1.0 };
            match (t >> 1) % 4 {
                0 => s * r / 64.0,
                1 => r / 256.0 + 0.5,
                2 => s * r * 1e6,
                _ => 10.0 + r / 1024.0,
            }
        }
    }
    pub fn finite(&mut self) -> f64 {
        let v = self.val();
        if v.is_finite() && v.abs() < 1e12 {
            v
        } else {
            self.u8() as f64 / 4.0 + 1.0
        }
    }
    pub fn inp(&mut self) -> Inp {
        let f = self.u8();
        let c = self.val();
        // mode: one value for all fields (+spread), or five independent fields
        let bar = if f & 2 == 0 {
            RawBar { o: c, h: c + 0.5, l: c - 0.5, c: c + 0.25, v: (c * 10.0).abs() }
        } else {
            RawBar { o: self.val(), h: self.val(), l: self.val(), c, v: self.val() }
        };
        Inp { bar, scalar: f & 1 == 0 }
    }
    pub fn inp_finite(&mut self) -> Inp {
        let f = self.u8();
        let c = self.finite();
        Inp { bar: RawBar { o: c, h: c + 0.5 + (f >> 4) as f64, l: c - 0.5, c: c + 0.25, v: (c * 10.0).abs() }, scalar: f & 1 == 0 }
    }
    pub fn cfg(&mut self, max_period: usize) -> Cfg {
        let kind: Kind = ALL_KINDS[self.u8() as usize % 22];
        let mut p = vec![];
        for _ in 0..kind.n_periods() {
            let a = self.u8() as usize;
            let n = if a < 200 { a % 9 + 1 } else { (self.u8() as usize * 17 + a) % max_period + 1 };
            p.push(n);
        }
        let m = if kind.has_mult() { self.val() } else { 0.0 };
        Cfg { kind, p, m: X(m) }
    }
}

use crate::props::c04;
use crate::props::c05;
use crate::props::c12;

pub fn decode_c12(b: &[u8]) -> c12::Case {
    let mut r = R::new(b);
    let cfg = r.cfg(300);
    let mut ops = vec![];
    while r.left() > 0 && ops.len() < 4000 {
        let t = r.u8();
        ops.push(match t % 16 {
            0 => c12::TOp::Reset,
            1 => c12::TOp::CloneSwap,
            2 => c12::TOp::Display,
            3 => c12::TOp::Debug,
            4 => c12::TOp::Serialize,
            5 => c12::TOp::CloneFromOther,
            6 => c12::TOp::RoundTrip,
            _ => c12::TOp::Next(r.inp()),
        });
    }
    c12::Case { cfg, ops }
}

pub fn decode_c04(b: &[u8]) -> c04::Case {
    let mut r = R::new(b);
    let mut cfg = r.cfg(40);
    if !cfg.m.0.is_finite() {
        cfg.m = X(2.0);
    }
    let w = cfg.p.iter().copied().max().unwrap_or(1);
    let mut continuation = vec![];
    for _ in 0..(w + 2 + (r.u8() as usize % 4)) {
        continuation.push(r.inp_finite());
    }
    let mut history = vec![];
    while r.left() > 0 && history.len() < 3000 {
        let t = r.u8();
        history.push(if t % 24 == 0 { c04::HOp::Reset } else { c04::HOp::Next(r.inp()) });
    }
    c04::Case { cfg, history, continuation }
}

fn r2_cfg(b: &[u8]) -> Cfg {
    // unrelated instance: configuration decoded from the tail of the input
    let rev: Vec<u8> = b.iter().rev().cloned().collect();
    R::new(&rev).cfg(24)
}

pub fn decode_c05(b: &[u8]) -> c05::Case {
    let mut r = R::new(b);
    let cfg = r.cfg(24);
    let clone_frac = r.u8() as usize;
    let mut ops = vec![];
    while r.left() > 0 && ops.len() < 3000 {
        let t = r.u8();
        ops.push(c05::COp { target: [0u8, 1, 0, 1, 2][t as usize % 5], inp: r.inp(), reset: t >= 240 });
    }
    let clone_at = if ops.is_empty() { 0 } else { clone_frac * ops.len() / 256 };
    let other = if ops.len() % 2 == 0 { Some(r2_cfg(b)) } else { None };
    c05::Case { cfg, other, replay_in_new_thread: false, clone_from_dirt: vec![], dirt_period_delta: 0, predecessor: vec![], ops, clone_at }
}

#[cfg(feature = "serde")]
pub fn decode_c06(b: &[u8]) -> crate::props::c06::Case {
    use crate::props::c06;
    let mut r = R::new(b);
    let mut cfg = r.cfg(40);
    if cfg.m.0.is_nan() {
        cfg.m = X(2.0);
    }
    let w = cfg.p.iter().copied().max().unwrap_or(1);
    let mut continuation = vec![];
    for _ in 0..(w + 2 + (r.u8() as usize % 4)) {
        continuation.push(r.inp_finite());
    }
    let mut history = vec![];
    while r.left() > 0 && history.len() < 3000 {
        let t = r.u8();
        history.push(match t % 24 {
            0 => c06::SOp::Reset,
            1 | 2 => c06::SOp::Checkpoint,
            _ => c06::SOp::Next(r.inp()),
        });
    }
    c06::Case { cfg, history, continuation }
}

/// Run a check outside the framework (fuzz targets): known findings are not excluded here —
/// the target panics with the signature; the harness re-runs the decoded case under the framework.
pub fn run_plain<C>(case: &C, id: &'static str, check: fn(&C, &mut crate::fw::Ctx) -> Result<(), crate::fw::Failure>, known: &[crate::fw::KnownEntry]) -> Result<(), crate::fw::Failure> {
    let mut st = crate::fw::Stats::default();
    let mut ctx = crate::fw::Ctx { stats: &mut st, known, id, counting: false, strict: false, by_construction: false };
    check(case, &mut ctx)
}

// ---- value-checking properties (C01, C02, C03): bytes → configuration + stream built from segments ----
use crate::gen::{bars_from, expand, grid_step, Domain};
use crate::props::{c01, c02, c03};

impl<'a> R<'a> {
    /// period with a bias towards small values but reaching 2048 (coverage feedback rewards the
    /// inputs that cross a period threshold inside the code under test)
    pub fn period_wide(&mut self) -> usize {
        let a = self.u8() as usize;
        match a % 8 {
            0..=3 => a / 8 % 9 + 1,
            4 | 5 => self.u8() as usize % 64 + 1,
            6 => self.u8() as usize * 2 + a / 8 + 1,
            _ => (self.u16() as usize % 2048) + 1,
        }
    }
    /// a stream made of up to 6 segments (regime, length, base, aux); values by gen::expand
    pub fn seg_stream(&mut self, dom: Domain, max_total: usize) -> Vec<f64> {
        let nseg = self.u8() as usize % 6 + 1;
        let mut out = vec![];
        for _ in 0..nseg {
            let regime = self.u8() as usize % crate::gen::N_REGIMES;
            let len = match self.u8() {
                x if x < 128 => x as usize % 40 + 1,
                x if x < 224 => self.u8() as usize * 2 + x as usize,
                _ => self.u16() as usize % 6000 + 1,
            };
            let bi = self.u8();
            let base = match dom {
                Domain::PositiveGrid => 2f64.powi((bi % 40) as i32 - 10),
                Domain::AnySign => [1.0, 1e-6, 1e5, 37.5, 1e12 / 2000.0, 0.02][bi as usize % 6],
                _ => [1.0, 85.18, 1e-2, 1e4, 3.7e-17, 1e15][bi as usize % 6],
            };
            let aux = self.u8() as f64 / 256.0;
            let room = max_total.saturating_sub(out.len());
            let len = len.min(room);
            if len == 0 {
                break;
            }
            let noise: Vec<f64> = (0..len).map(|_| self.u8() as f64 / 256.0).collect();
            let regime = if dom != Domain::AnySign && (regime == 8 || regime == 9) { regime - 8 } else { regime };
            out.extend(expand(dom, regime, base, aux, &noise));
        }
        out
    }
}

pub fn decode_c01(b: &[u8]) -> c01::Case {
    let mut r = R::new(b);
    let kind = c01::KINDS[r.u8() as usize % c01::KINDS.len()];
    let n = r.period_wide();
    let m = if kind.has_mult() { r.finite() } else { 0.0 };
    let nres = r.u8() % 3;
    let vals = r.seg_stream(Domain::AnySign, 3 * n + 400);
    let mut resets: Vec<usize> = (0..nres).map(|_| r.u16() as usize % vals.len().max(1)).collect();
    resets.sort();
    resets.dedup();
    c01::Case { cfg: Cfg { kind, p: vec![n], m: X(m) }, xs: crate::fw::xs(&vals), resets, stride: (n / 16).max(1) }
}

pub fn decode_c02(b: &[u8]) -> c02::Case {
    let mut r = R::new(b);
    const K: [Kind; 6] = [Kind::Ema, Kind::Tr, Kind::Atr, Kind::Macd, Kind::Kc, Kind::Ce];
    let kind = K[r.u8() as usize % 6];
    let p: Vec<usize> = (0..kind.n_periods()).map(|_| r.period_wide()).collect();
    let m = if kind.has_mult() { r.finite() } else { 0.0 };
    let scalar = kind != Kind::Ce && r.u8() % 2 == 0;
    if scalar {
        let vals = r.seg_stream(Domain::AnySign, 4_000);
        c02::Case { cfg: Cfg { kind, p, m: X(m) }, scalar: true, xs: crate::fw::xs(&vals), bars: vec![] }
    } else {
        let vals = r.seg_stream(Domain::Positive, if kind == Kind::Ce { 3 * p[0] + 300 } else { 3_000 });
        let shape: Vec<(f64, f64, f64, f64, f64)> = (0..(r.u8() as usize % 16 + 1)).map(|_| (r.u8() as f64 / 256.0, r.u8() as f64 / 256.0, r.u8() as f64 / 256.0, r.u8() as f64 / 256.0, r.u8() as f64 / 256.0)).collect();
        c02::Case { cfg: Cfg { kind, p, m: X(m) }, scalar: false, xs: vec![], bars: bars_from(&vals, &shape, None) }
    }
}

pub fn decode_c03(b: &[u8]) -> c03::Case {
    let mut r = R::new(b);
    const SK: [Kind; 6] = [Kind::Rsi, Kind::FastStoch, Kind::SlowStoch, Kind::Roc, Kind::Er, Kind::Ppo];
    const BK: [Kind; 5] = [Kind::FastStoch, Kind::SlowStoch, Kind::Cci, Kind::Mfi, Kind::Obv];
    let scalar = r.u8() % 2 == 0;
    let kind = if scalar { SK[r.u8() as usize % 6] } else { BK[r.u8() as usize % 5] };
    let p: Vec<usize> = (0..kind.n_periods()).map(|_| r.period_wide().min(if kind == Kind::SlowStoch { 64 } else { 600 })).collect();
    let stride = (p.first().copied().unwrap_or(1) / 16).max(1);
    let grid = r.u8() % 4 != 0;
    let dom = if grid { Domain::PositiveGrid } else { Domain::Positive };
    let vals = r.seg_stream(dom, 3 * p.first().copied().unwrap_or(1) + 300);
    if scalar {
        c03::Case { cfg: Cfg { kind, p, m: X(0.0) }, scalar: true, xs: crate::fw::xs(&vals), bars: vec![], stride }
    } else {
        let shape: Vec<(f64, f64, f64, f64, f64)> = (0..(r.u8() as usize % 16 + 1)).map(|_| (r.u8() as f64 / 256.0, r.u8() as f64 / 256.0, r.u8() as f64 / 256.0, r.u8() as f64 / 256.0, r.u8() as f64 / 256.0)).collect();
        let g = if grid { vals.iter().cloned().fold(f64::INFINITY, f64::min) } else { 0.0 };
        let gs = if grid && g.is_finite() { Some(grid_step(g * 256.0).min(g)) } else { None };
        c03::Case { cfg: Cfg { kind, p, m: X(0.0) }, scalar: false, xs: vec![], bars: bars_from(&vals, &shape, gs), stride }
    }
}

// ---- predicate / differential properties (C07, C08, C09, C15, C17) ----
use crate::props::{c07, c08, c09, c15, c17};

fn shape_vec(r: &mut R) -> Vec<(f64, f64, f64, f64, f64)> {
    (0..(r.u8() as usize % 16 + 1)).map(|_| (r.u8() as f64 / 256.0, r.u8() as f64 / 256.0, r.u8() as f64 / 256.0, r.u8() as f64 / 256.0, r.u8() as f64 / 256.0)).collect()
}

pub fn decode_c07(b: &[u8]) -> c03::Case {
    let mut r = R::new(b);
    const SK: [Kind; 4] = [Kind::Rsi, Kind::FastStoch, Kind::SlowStoch, Kind::Er];
    const BK: [Kind; 3] = [Kind::FastStoch, Kind::SlowStoch, Kind::Mfi];
    let scalar = r.u8() % 2 == 0;
    let kind = if scalar { SK[r.u8() as usize % 4] } else { BK[r.u8() as usize % 3] };
    let cap = if matches!(kind, Kind::Er | Kind::Mfi | Kind::SlowStoch) { 160 } else { 600 };
    let p: Vec<usize> = (0..kind.n_periods()).map(|_| r.period_wide().min(cap)).collect();
    let dom = [Domain::PositiveGrid, Domain::Positive, Domain::Positive, Domain::TinyPositive][r.u8() as usize % 4];
    let vals = r.seg_stream(dom, 3 * p[0] + 400);
    if scalar {
        c03::Case { cfg: Cfg { kind, p, m: X(0.0) }, scalar: true, xs: crate::fw::xs(&vals), bars: vec![], stride: 0 }
    } else {
        let shape = shape_vec(&mut r);
        c03::Case { cfg: Cfg { kind, p, m: X(0.0) }, scalar: false, xs: vec![], bars: bars_from(&vals, &shape, None), stride: 0 }
    }
}

pub fn decode_c08(b: &[u8]) -> c08::Case {
    let mut r = R::new(b);
    let kind: Kind = ALL_KINDS[r.u8() as usize % 22];
    let cap = if matches!(kind, Kind::Mad | Kind::Cci | Kind::Er) { 400 } else { 600 };
    let p: Vec<usize> = (0..kind.n_periods()).map(|_| r.period_wide().min(cap)).collect();
    let m = if kind.has_mult() { r.finite() } else { 0.0 };
    let n = p.first().copied().unwrap_or(1);
    let scalar = r.u8() % 2 == 0;
    let pre = r.seg_stream(Domain::Positive, 3 * n + 40);
    let shape = shape_vec(&mut r);
    let npre = r.u16() as usize % (pre.len() + 1);
    let prefix = bars_from(&pre[..npre], &shape, None);
    let nzv = if r.u8() % 4 == 0 { r.u8() as usize % (2 * n + 5) } else { 0 };
    let zvp = r.seg_stream(Domain::Positive, nzv.max(1));
    let zv = bars_from(&zvp[..nzv.min(zvp.len())], &shape, None);
    let level = [0.1, 1.0, 85.18, 1e-3, 1e6, 123.456, 3.7e-17, 64999.01][r.u8() as usize % 8];
    let flat_len = match r.u8() % 4 {
        0 => r.u8() as usize % (n + 4),
        1 => n + 1 + r.u8() as usize,
        2 => r.u16() as usize % 3000,
        _ => [700, 1100, 2 * n + 3, 5 * n][r.u8() as usize % 4],
    };
    let vol = 1.0 + r.u8() as f64;
    // trailing byte (absent in older corpus files: 0): reset() between the activity and the flat stretch
    let reset_before_flat = r.u8() % 4 == 1;
    c08::Case { cfg: Cfg { kind, p, m: X(m) }, scalar, prefix, zv, level: X(level), vol: X(vol), flat_len, neg_zero_mask: 0, gen_prefix: None, reset_before_flat }
}

pub fn decode_c09(b: &[u8]) -> c09::Case {
    let mut r = R::new(b);
    const SK: [Kind; 12] = [Kind::Sd, Kind::Mad, Kind::Min, Kind::Bb, Kind::Kc, Kind::Macd, Kind::Ppo, Kind::Sma, Kind::Wma, Kind::Ema, Kind::Tr, Kind::Atr];
    const BK: [Kind; 4] = [Kind::Tr, Kind::Atr, Kind::Kc, Kind::Ce];
    let scalar = r.u8() % 4 != 0;
    let kind = if scalar { SK[r.u8() as usize % 12] } else { BK[r.u8() as usize % 4] };
    let cap = if kind == Kind::Mad { 160 } else { 1024 };
    let p: Vec<usize> = (0..kind.n_periods()).map(|_| r.period_wide().min(cap)).collect();
    let m = if kind.has_mult() { r.finite().abs() } else { 0.0 };
    let n = p.first().copied().unwrap_or(1);
    let dom = [Domain::AnySign, Domain::AnySign, Domain::TinyAnySign, Domain::TinyPositive][r.u8() as usize % 4];
    if scalar {
        let vals = r.seg_stream(dom, 3 * n + 300);
        c09::Case { cfg: Cfg { kind, p, m: X(m) }, scalar: true, xs: crate::fw::xs(&vals), bars: vec![] }
    } else {
        let a = r.seg_stream(dom, 3 * n + 300);
        let bb = r.seg_stream(dom, a.len());
        let cc = r.seg_stream(dom, a.len());
        let len = a.len().min(bb.len()).min(cc.len());
        let bars = (0..len).map(|i| RawBar { o: a[i], h: a[i].max(bb[i]), l: a[i].min(bb[i]), c: cc[i], v: 1.0 }).collect();
        c09::Case { cfg: Cfg { kind, p, m: X(m) }, scalar: false, xs: vec![], bars }
    }
}

pub fn decode_c15(b: &[u8]) -> c15::Case {
    let mut r = R::new(b);
    const SK: [Kind; 6] = [Kind::Bb, Kind::SlowStoch, Kind::Atr, Kind::Macd, Kind::Kc, Kind::Ppo];
    const BK: [Kind; 5] = [Kind::SlowStoch, Kind::Atr, Kind::Kc, Kind::Ce, Kind::Cci];
    let scalar = r.u8() % 2 == 0;
    let kind = if scalar { SK[r.u8() as usize % 6] } else { BK[r.u8() as usize % 5] };
    let cap = if kind == Kind::Cci { 200 } else { 1024 };
    let p: Vec<usize> = (0..kind.n_periods()).map(|_| r.period_wide().min(cap)).collect();
    let m = if kind.has_mult() { r.finite() } else { 0.0 };
    let n = p.first().copied().unwrap_or(1);
    if scalar {
        let dom = if matches!(kind, Kind::Ppo | Kind::SlowStoch) { Domain::Positive } else { Domain::AnySign };
        let vals = r.seg_stream(dom, 3 * n + 300);
        c15::Case { cfg: Cfg { kind, p, m: X(m) }, scalar: true, xs: crate::fw::xs(&vals), bars: vec![] }
    } else {
        let vals = r.seg_stream(Domain::Positive, 3 * n + 300);
        let shape = shape_vec(&mut r);
        c15::Case { cfg: Cfg { kind, p, m: X(m) }, scalar: false, xs: vec![], bars: bars_from(&vals, &shape, None) }
    }
}

pub fn decode_c17(b: &[u8]) -> c17::Case {
    let mut r = R::new(b);
    let kind = c17::KINDS[r.u8() as usize % c17::KINDS.len()];
    let cap = if matches!(kind, Kind::Mad | Kind::Cci | Kind::Er) { 160 } else { 1024 };
    let n = r.period_wide().min(cap);
    let m = if kind.has_mult() { r.finite() } else { 0.0 };
    let w = kind.memory(n).unwrap();
    let scalar = r.u8() % 2 == 0;
    let extra = [0usize, 0, 1, 2, n, n / 2][r.u8() as usize % 6];
    let pre = r.seg_stream(Domain::Positive, 2 * n + 300);
    let npre = r.u16() as usize % (pre.len() + 1);
    let suf = r.seg_stream(Domain::Positive, w + extra);
    let shape = shape_vec(&mut r);
    let mut prefix = bars_from(&pre[..npre], &shape, None);
    if r.u8() % 2 == 0 && !prefix.is_empty() {
        let i = r.u16() as usize % prefix.len();
        let f = [1e3, 1e6][r.u8() as usize % 2];
        let bb = &mut prefix[i];
        bb.o *= f;
        bb.h *= f;
        bb.l *= f;
        bb.c *= f;
    }
    // the suffix must be at least w long: pad by repeating its last value
    let mut sv = suf;
    while sv.len() < w + extra {
        let last = sv.last().copied().unwrap_or(1.0);
        sv.push(last * 1.01);
    }
    c17::Case { cfg: Cfg { kind, p: vec![n], m: X(m) }, scalar, prefix, suffix: bars_from(&sv, &shape, None), gen_prefix: None }
}

// ---- C16: raw bit patterns straight from the input, so that libFuzzer's comparison tracing can feed
// magic constants (a particular NaN payload, a sentinel) back into the values ----
pub fn decode_c16(b: &[u8]) -> crate::props::c16::Case {
    let mut calls = vec![];
    let mut i = 0;
    while i + 9 <= b.len() && calls.len() < 12 {
        let id = b[i] % 5;
        let mut w = [0u8; 8];
        w.copy_from_slice(&b[i + 1..i + 9]);
        calls.push((id, X(f64::from_bits(u64::from_le_bytes(w)))));
        i += 9;
    }
    crate::props::c16::Case { calls }
}
