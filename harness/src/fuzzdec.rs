//! Byte-level decoders shared by the libFuzzer targets and the harness (so a crash artifact is
//! replayed on the stable toolchain by decoding it into the same Case the proptest stages use).

use crate::adapter::{Kind, RawBar, ALL_KINDS};
use crate::fw::X;
use crate::gen::{Cfg, Inp, SPECIALS};

pub struct R<'a> {
    b: &'a [u8],
    i: usize,
}
impl<'a> R<'a> {
    pub fn new(b: &'a [u8]) -> R<'a> {
        R { b, i: 0 }
    }
    pub fn left(&self) -> usize {
        self.b.len().saturating_sub(self.i)
    }
    pub fn u8(&mut self) -> u8 {
        let v = self.b.get(self.i).copied().unwrap_or(0);
        self.i += 1;
        v
    }
    pub fn u16(&mut self) -> u16 {
        (self.u8() as u16) | ((self.u8() as u16) << 8)
    }
    /// a value: 0..=11 special, 12..=63 small table, otherwise 2 more bytes → fixed-point
    pub fn val(&mut self) -> f64 {
        let t = self.u8();
        if (t as usize) < SPECIALS.len() {
            SPECIALS[t as usize]
        } else if t < 64 {
            const TBL: [f64; 13] = [1.0, 2.0, 2.5, 3.0, 4.0, 5.0, 10.0, 0.1, 100.0, -1.0, -2.5, 85.18, 1e6];
            TBL[(t as usize - 12) % 13]
        } else {
            let r = self.u16() as f64;
            let s = if t & 1 == 0 { 1.0 } else { -1.0 };
            match (t >> 1) % 4 {
                0 => s * r / 64.0,
                1 => r / 256.0 + 0.5,
                2 => s * r * 1e6,
                _ => 10.0 + r / 1024.0,
            }
        }
    }
    pub fn finite(&mut self) -> f64 {
        let v = self.val();
        if v.is_finite() && v.abs() < 1e12 {
            v
        } else {
            self.u8() as f64 / 4.0 + 1.0
        }
    }
    pub fn inp(&mut self) -> Inp {
        let f = self.u8();
        let c = self.val();
        // mode: one value for all fields (+spread), or five independent fields
        let bar = if f & 2 == 0 {
            RawBar { o: c, h: c + 0.5, l: c - 0.5, c: c + 0.25, v: (c * 10.0).abs() }
        } else {
            RawBar { o: self.val(), h: self.val(), l: self.val(), c, v: self.val() }
        };
        Inp { bar, scalar: f & 1 == 0 }
    }
    pub fn inp_finite(&mut self) -> Inp {
        let f = self.u8();
        let c = self.finite();
        Inp { bar: RawBar { o: c, h: c + 0.5 + (f >> 4) as f64, l: c - 0.5, c: c + 0.25, v: (c * 10.0).abs() }, scalar: f & 1 == 0 }
    }
    pub fn cfg(&mut self, max_period: usize) -> Cfg {
        let kind: Kind = ALL_KINDS[self.u8() as usize % 22];
        let mut p = vec![];
        for _ in 0..kind.n_periods() {
            let a = self.u8() as usize;
            let n = if a < 200 { a % 9 + 1 } else { (self.u8() as usize * 17 + a) % max_period + 1 };
            p.push(n);
        }
        let m = if kind.has_mult() { self.val() } else { 0.0 };
        Cfg { kind, p, m: X(m) }
    }
}

use crate::props::c04;
use crate::props::c05;
use crate::props::c12;

pub fn decode_c12(b: &[u8]) -> c12::Case {
    let mut r = R::new(b);
    let cfg = r.cfg(300);
    let mut ops = vec![];
    while r.left() > 0 && ops.len() < 4000 {
        let t = r.u8();
        ops.push(match t % 16 {
            0 => c12::TOp::Reset,
            1 => c12::TOp::CloneSwap,
            2 => c12::TOp::Display,
            3 => c12::TOp::Debug,
            4 => c12::TOp::Serialize,
            _ => c12::TOp::Next(r.inp()),
        });
    }
    c12::Case { cfg, ops }
}

pub fn decode_c04(b: &[u8]) -> c04::Case {
    let mut r = R::new(b);
    let mut cfg = r.cfg(40);
    if !cfg.m.0.is_finite() {
        cfg.m = X(2.0);
    }
    let w = cfg.p.iter().copied().max().unwrap_or(1);
    let mut continuation = vec![];
    for _ in 0..(w + 2 + (r.u8() as usize % 4)) {
        continuation.push(r.inp_finite());
    }
    let mut history = vec![];
    while r.left() > 0 && history.len() < 3000 {
        let t = r.u8();
        history.push(if t % 24 == 0 { c04::HOp::Reset } else { c04::HOp::Next(r.inp()) });
    }
    c04::Case { cfg, history, continuation }
}

fn r2_cfg(b: &[u8]) -> Cfg {
    // unrelated instance: configuration decoded from the tail of the input
    let rev: Vec<u8> = b.iter().rev().cloned().collect();
    R::new(&rev).cfg(24)
}

pub fn decode_c05(b: &[u8]) -> c05::Case {
    let mut r = R::new(b);
    let cfg = r.cfg(24);
    let clone_frac = r.u8() as usize;
    let mut ops = vec![];
    while r.left() > 0 && ops.len() < 3000 {
        let t = r.u8();
        ops.push(c05::COp { target: [0u8, 1, 0, 1, 2][t as usize % 5], inp: r.inp() });
    }
    let clone_at = if ops.is_empty() { 0 } else { clone_frac * ops.len() / 256 };
    let other = if ops.len() % 2 == 0 { Some(r2_cfg(b)) } else { None };
    c05::Case { cfg, other, replay_in_new_thread: false, ops, clone_at }
}

#[cfg(feature = "serde")]
pub fn decode_c06(b: &[u8]) -> crate::props::c06::Case {
    use crate::props::c06;
    let mut r = R::new(b);
    let mut cfg = r.cfg(40);
    if cfg.m.0.is_nan() {
        cfg.m = X(2.0);
    }
    let w = cfg.p.iter().copied().max().unwrap_or(1);
    let mut continuation = vec![];
    for _ in 0..(w + 2 + (r.u8() as usize % 4)) {
        continuation.push(r.inp_finite());
    }
    let mut history = vec![];
    while r.left() > 0 && history.len() < 3000 {
        let t = r.u8();
        history.push(match t % 24 {
            0 => c06::SOp::Reset,
            1 | 2 => c06::SOp::Checkpoint,
            _ => c06::SOp::Next(r.inp()),
        });
    }
    c06::Case { cfg, history, continuation }
}

/// Run a check outside the framework (fuzz targets): known findings are not excluded here —
/// the target panics with the signature; the harness re-runs the decoded case under the framework.
pub fn run_plain<C>(case: &C, id: &'static str, check: fn(&C, &mut crate::fw::Ctx) -> Result<(), crate::fw::Failure>, known: &[crate::fw::KnownEntry]) -> Result<(), crate::fw::Failure> {
    let mut st = crate::fw::Stats::default();
    let mut ctx = crate::fw::Ctx { stats: &mut st, known, id, counting: false, strict: false, by_construction: false };
    check(case, &mut ctx)
}
