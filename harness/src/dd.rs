//! Double-double arithmetic (~2^-104 relative) for reference models.
//! Error-free transformations: two_sum (Knuth), two_prod via fused multiply-add.

#[derive(Clone, Copy, Debug, PartialEq)]
pub struct DD {
    pub hi: f64,
    pub lo: f64,
}

#[inline]
pub fn two_sum(a: f64, b: f64) -> (f64, f64) {
    let s = a + b;
    let bb = s - a;
    let e = (a - (s - bb)) + (b - bb);
    (s, e)
}

#[inline]
fn quick_two_sum(a: f64, b: f64) -> (f64, f64) {
    let s = a + b;
    let e = b - (s - a);
    (s, e)
}

#[inline]
pub fn two_prod(a: f64, b: f64) -> (f64, f64) {
    let p = a * b;
    let e = a.mul_add(b, -p);
    (p, e)
}

impl DD {
    pub const ZERO: DD = DD { hi: 0.0, lo: 0.0 };
    pub const ONE: DD = DD { hi: 1.0, lo: 0.0 };

    #[inline]
    pub fn from(x: f64) -> DD {
        DD { hi: x, lo: 0.0 }
    }
    #[inline]
    pub fn to_f64(self) -> f64 {
        self.hi + self.lo
    }
    #[inline]
    pub fn add(self, o: DD) -> DD {
        let (s, e) = two_sum(self.hi, o.hi);
        let (t, f) = two_sum(self.lo, o.lo);
        let e = e + t;
        let (s, e) = quick_two_sum(s, e);
        let e = e + f;
        let (hi, lo) = quick_two_sum(s, e);
        DD { hi, lo }
    }
    #[inline]
    pub fn add_f(self, o: f64) -> DD {
        let (s, e) = two_sum(self.hi, o);
        let e = e + self.lo;
        let (hi, lo) = quick_two_sum(s, e);
        DD { hi, lo }
    }
    #[inline]
    pub fn neg(self) -> DD {
        DD { hi: -self.hi, lo: -self.lo }
    }
    #[inline]
    pub fn sub(self, o: DD) -> DD {
        self.add(o.neg())
    }
    #[inline]
    pub fn sub_f(self, o: f64) -> DD {
        self.add_f(-o)
    }
    #[inline]
    pub fn mul(self, o: DD) -> DD {
        let (p, e) = two_prod(self.hi, o.hi);
        let e = e + (self.hi * o.lo + self.lo * o.hi);
        let (hi, lo) = quick_two_sum(p, e);
        DD { hi, lo }
    }
    #[inline]
    pub fn mul_f(self, o: f64) -> DD {
        let (p, e) = two_prod(self.hi, o);
        let e = e + self.lo * o;
        let (hi, lo) = quick_two_sum(p, e);
        DD { hi, lo }
    }
    pub fn div(self, o: DD) -> DD {
        let q1 = self.hi / o.hi;
        let r = self.sub(o.mul_f(q1));
        let q2 = r.hi / o.hi;
        let r = r.sub(o.mul_f(q2));
        let q3 = r.hi / o.hi;
        let (hi, lo) = quick_two_sum(q1, q2);
        DD { hi, lo }.add_f(q3)
    }
    #[inline]
    pub fn div_f(self, o: f64) -> DD {
        self.div(DD::from(o))
    }
    #[inline]
    pub fn abs(self) -> DD {
        if self.hi < 0.0 || (self.hi == 0.0 && self.lo < 0.0) {
            self.neg()
        } else {
            self
        }
    }
    pub fn sqrt(self) -> DD {
        if self.hi <= 0.0 {
            return DD::ZERO;
        }
        let x = 1.0 / self.hi.sqrt();
        let ax = self.hi * x;
        let (p, e) = two_prod(ax, ax);
        let diff = self.sub(DD { hi: p, lo: e });
        let (hi, lo) = two_sum(ax, diff.hi * (x * 0.5));
        DD { hi, lo }
    }
    #[inline]
    pub fn lt(self, o: DD) -> bool {
        self.hi < o.hi || (self.hi == o.hi && self.lo < o.lo)
    }
    #[inline]
    pub fn is_zero(self) -> bool {
        self.hi == 0.0 && self.lo == 0.0
    }
    #[inline]
    pub fn max(self, o: DD) -> DD {
        if self.lt(o) {
            o
        } else {
            self
        }
    }
    /// exact product of two f64
    #[inline]
    pub fn prod(a: f64, b: f64) -> DD {
        let (hi, lo) = two_prod(a, b);
        DD { hi, lo }
    }
    /// exact sum of two f64
    #[inline]
    pub fn sum2(a: f64, b: f64) -> DD {
        let (hi, lo) = two_sum(a, b);
        DD { hi, lo }
    }
}

/// Sum of a slice in double-double.
pub fn dd_sum<'a, I: IntoIterator<Item = &'a f64>>(it: I) -> DD {
    let mut s = DD::ZERO;
    for &x in it {
        s = s.add_f(x);
    }
    s
}

#[cfg(test)]
mod tests {
    use super::*;
    #[test]
    fn basics() {
        let a = DD::from(1.0).div_f(3.0);
        let b = a.mul_f(3.0);
        assert!((b.to_f64() - 1.0).abs() < 1e-30 || b.sub_f(1.0).abs().to_f64() < 1e-30);
        let s = DD::from(2.0).sqrt();
        let r = s.mul(s).sub_f(2.0).abs().to_f64();
        assert!(r < 1e-30, "{}", r);
        let x = DD::from(1e16).add_f(1.0).sub_f(1e16);
        assert_eq!(x.to_f64(), 1.0);
    }
}
