//! Shared pieces for the history-shaped properties (C04, C05, C06, C12).

use crate::adapter::{Kind, Out, RawBar};
use crate::fw::X;
use crate::gen::{Cfg, Inp};

/// `same`: both NaN, or numerically equal (0.0 == -0.0), or within `rel` relative.
pub fn same(a: f64, b: f64, rel: f64) -> bool {
    if a.is_nan() || b.is_nan() {
        return a.is_nan() && b.is_nan();
    }
    if a == b {
        return true;
    }
    if a.is_infinite() || b.is_infinite() {
        return false;
    }
    (a - b).abs() <= rel * a.abs().max(b.abs())
}
pub fn same_out(a: &Out, b: &Out, rel: f64) -> bool {
    a.n == b.n && a.vals().iter().zip(b.vals()).all(|(x, y)| same(*x, *y, rel))
}

/// small configuration for a kind with leading period n (used by the exhaustive stages)
/// reset positions for the `resets` stages: each pick decodes to a position that is a multiple of the period
/// (the ring is back at phase 0), one next to it, an arbitrary one, or one fewer than n inputs after the
/// previous reset (a second reset before the window refilled)
pub fn reset_positions(n: usize, len: usize, picks: &[u16]) -> Vec<usize> {
    let n = n.max(1);
    let mut v: Vec<usize> = vec![];
    for &pk in picks {
        let r = (pk / 4) as usize;
        let pos = match pk % 4 {
            0 => n * (1 + r % 4),
            1 => (n * (1 + r % 4) + 1 + r % 2).saturating_sub(2 * (r % 2)),
            2 => r % len.max(1),
            _ => v.last().copied().unwrap_or(n + 1 + r % (n + 1)) + 1 + r % n,
        };
        if pos > 0 && pos < len {
            v.push(pos);
        }
    }
    v.sort_unstable();
    v.dedup();
    v
}
/// the documented default parameters (what `Default::default()` must be equivalent to)
pub fn cfg_default(kind: Kind) -> Cfg {
    let dp = kind.default_params();
    Cfg { kind, p: dp.p[..kind.n_periods()].to_vec(), m: X(dp.m) }
}
pub fn cfg_small(kind: Kind, n: usize) -> Cfg {
    let p = match kind.n_periods() {
        0 => vec![],
        1 => vec![n],
        2 => vec![n, 2],
        _ => vec![n, n + 2, 2],
    };
    Cfg { kind, p, m: X(if kind.has_mult() { 2.0 } else { 0.0 }) }
}

/// an input letter built from one number: a bar with some spread around v (so bar-only
/// indicators see a real bar), fed through the scalar path where the kind has one
pub fn letter(v: f64) -> Inp {
    Inp { bar: RawBar { o: v, h: v + 0.5, l: v - 0.5, c: v + 0.25, v: (v * 10.0).abs() }, scalar: true }
}
pub fn letter_bar(v: f64) -> Inp {
    Inp { bar: RawBar { o: v, h: v + 0.5, l: v - 0.5, c: v + 0.25, v: (v * 10.0).abs() }, scalar: false }
}

/// longest window among the periods of a configuration (flush length)
pub fn flush_len(cfg: &Cfg) -> usize {
    cfg.p.iter().copied().max().unwrap_or(1)
}

/// active bars, then a long run of identical bars (exponential averages of the movement decay into the
/// subnormal range and to zero), then activity again: what happens on the wake-up bar and after it
pub fn sleep_wake_bars(seed: u64, flat: usize, level: f64) -> Vec<RawBar> {
    let mut g = crate::props::c13::Gen::new(seed, 0, level / 30.0, 5);
    let mut v: Vec<RawBar> = (0..30).map(|_| g.bar()).collect();
    let f = RawBar { o: level, h: level, l: level, c: level, v: 10.0 };
    v.extend((0..flat).map(|_| f));
    v.extend((0..40).map(|_| g.bar()));
    v
}
pub const SLEEP_LENS: [usize; 8] = [300, 645, 700, 1023, 1030, 1100, 4956, 5200];

/// Streams built around a given window length n that force the cached-extreme bookkeeping through its
/// rare paths at a chosen ring phase:
///  pattern 0 — a spike at input `phase`, quiet values for n-1 inputs, then exactly n inputs later a value
///              below the spike but above everything else (the evicted extreme is replaced by the value
///              just written), repeated with slowly decaying spikes;
///  pattern 1 — a non-decreasing run (with ties) of n+k inputs, then one value below the whole window;
///  pattern 2, 3 — the mirror images (dips / non-increasing run then a value above the window);
///  pattern 4, 5 — a level M touched at input `phase` and again (bit-identical) j inputs later, broken by a
///              strictly higher value exactly n inputs after the first touch (and the mirror image).
pub fn extreme_stress(n: usize, phase: usize, pattern: usize, seed: u64) -> Vec<f64> {
    let mut st = seed;
    let len = 4 * n + phase + 8;
    let mut v = Vec::with_capacity(len);
    if pattern % 6 >= 4 {
        let j = 1 + (crate::fw::splitmix(&mut st) as usize) % n.max(2).saturating_sub(1).max(1);
        let mut level = 500.0;
        for i in 0..len {
            let u = crate::fw::unit(&mut st);
            let x = if i >= phase && (i - phase) % (2 * n) == 0 {
                level
            } else if i >= phase + j && (i - phase - j) % (2 * n) == 0 && j < n {
                level
            } else if i >= phase + n && (i - phase - n) % (2 * n) == 0 {
                // break-out exactly n inputs after the first touch; the next cycle uses the new level
                level += 25.0;
                level - 12.5
            } else {
                10.0 + u
            };
            v.push(if pattern % 6 == 4 { x } else { 5000.0 - x });
        }
        return v;
    }
    match pattern % 4 {
        0 | 2 => {
            let mut spike = 1000.0;
            for i in 0..len {
                let u = crate::fw::unit(&mut st);
                let x = if i >= phase && (i - phase) % n == 0 {
                    spike *= 0.97;
                    spike
                } else {
                    10.0 + u
                };
                v.push(if pattern % 4 == 0 { x } else { 2000.0 - x });
            }
        }
        _ => {
            let k = [0usize, 1, 5][phase % 3];
            let mut x = 100.0;
            let mut run = 0usize;
            for _ in 0..len {
                let u = crate::fw::unit(&mut st);
                if run >= n + k {
                    // one step below everything the window still holds
                    x *= 0.5;
                    run = 0;
                } else {
                    x += if u < 0.3 { 0.0 } else { 0.01 * u };
                    run += 1;
                }
                v.push(if pattern % 4 == 1 { x } else { 1e6 - x });
            }
        }
    }
    v
}

/// first step (1-based, counted from the first flat bar) at which ATR(n) of `prefix` followed by identical
/// flat bars at `level` is subnormal, simulated in plain f64 (used only to *place* inputs, never as an oracle)
pub fn first_subnormal_atr_step(prefix: &[RawBar], level: f64, n: usize) -> usize {
    let k = 2.0 / (n as f64 + 1.0);
    let mut ema = 0.0f64;
    let mut prev_close: Option<f64> = None;
    let mut first = true;
    let mut feed = |b: &RawBar, ema: &mut f64| {
        let tr = match prev_close {
            None => b.h - b.l,
            Some(pc) => (b.h - b.l).max((b.h - pc).abs()).max((b.l - pc).abs()),
        };
        prev_close = Some(b.c);
        if first {
            first = false;
            *ema = tr;
        } else {
            *ema = k * tr + (1.0 - k) * *ema;
        }
    };
    for b in prefix {
        feed(b, &mut ema);
    }
    let f = RawBar { o: level, h: level, l: level, c: level, v: 10.0 };
    for s in 1..40_000usize {
        feed(&f, &mut ema);
        if ema < f64::MIN_POSITIVE {
            return s;
        }
    }
    40_000
}

/// sleep-and-wake stream whose wake-up bar falls `d` steps after the first subnormal ATR(n) step
pub fn sleep_wake_at_subnormal(seed: u64, level: f64, n: usize, d: i64) -> Vec<RawBar> {
    let mut g = crate::props::c13::Gen::new(seed, 0, level / 30.0, 5);
    let mut v: Vec<RawBar> = (0..30).map(|_| g.bar()).collect();
    let s = first_subnormal_atr_step(&v, level, n) as i64;
    let flat = (s + d).max(1) as usize;
    let f = RawBar { o: level, h: level, l: level, c: level, v: 10.0 };
    v.extend((0..flat).map(|_| f));
    v.extend((0..30).map(|_| g.bar()));
    v
}
pub const WAKE_OFFSETS: [i64; 10] = [-2, -1, 0, 1, 2, 3, 10, 30, 51, 52];
