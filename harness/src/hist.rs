//! Shared pieces for the history-shaped properties (C04, C05, C06, C12).

use crate::adapter::{Kind, Out, RawBar};
use crate::fw::X;
use crate::gen::{Cfg, Inp};

/// `same`: both NaN, or numerically equal (0.0 == -0.0), or within `rel` relative.
pub fn same(a: f64, b: f64, rel: f64) -> bool {
    if a.is_nan() || b.is_nan() {
        return a.is_nan() && b.is_nan();
    }
    if a == b {
        return true;
    }
    if a.is_infinite() || b.is_infinite() {
        return false;
    }
    (a - b).abs() <= rel * a.abs().max(b.abs())
}
pub fn same_out(a: &Out, b: &Out, rel: f64) -> bool {
    a.n == b.n && a.vals().iter().zip(b.vals()).all(|(x, y)| same(*x, *y, rel))
}

/// small configuration for a kind with leading period n (used by the exhaustive stages)
pub fn cfg_small(kind: Kind, n: usize) -> Cfg {
    let p = match kind.n_periods() {
        0 => vec![],
        1 => vec![n],
        2 => vec![n, 2],
        _ => vec![n, n + 2, 2],
    };
    Cfg { kind, p, m: X(if kind.has_mult() { 2.0 } else { 0.0 }) }
}

/// an input letter built from one number: a bar with some spread around v (so bar-only
/// indicators see a real bar), fed through the scalar path where the kind has one
pub fn letter(v: f64) -> Inp {
    Inp { bar: RawBar { o: v, h: v + 0.5, l: v - 0.5, c: v + 0.25, v: (v * 10.0).abs() }, scalar: true }
}
pub fn letter_bar(v: f64) -> Inp {
    Inp { bar: RawBar { o: v, h: v + 0.5, l: v - 0.5, c: v + 0.25, v: (v * 10.0).abs() }, scalar: false }
}

/// longest window among the periods of a configuration (flush length)
pub fn flush_len(cfg: &Cfg) -> usize {
    cfg.p.iter().copied().max().unwrap_or(1)
}

/// active bars, then a long run of identical bars (exponential averages of the movement decay into the
/// subnormal range and to zero), then activity again: what happens on the wake-up bar and after it
pub fn sleep_wake_bars(seed: u64, flat: usize, level: f64) -> Vec<RawBar> {
    let mut g = crate::props::c13::Gen::new(seed, 0, level / 30.0, 5);
    let mut v: Vec<RawBar> = (0..30).map(|_| g.bar()).collect();
    let f = RawBar { o: level, h: level, l: level, c: level, v: 10.0 };
    v.extend((0..flat).map(|_| f));
    v.extend((0..40).map(|_| g.bar()));
    v
}
pub const SLEEP_LENS: [usize; 8] = [300, 645, 700, 1023, 1030, 1100, 4956, 5200];
