//! Generators (proptest strategies built by construction, no filtering) and case building blocks.

use crate::adapter::{Kind, Params, RawBar, ALL_KINDS};
use crate::fw::X;
use proptest::collection::vec;
use proptest::prelude::*;
use serde::{Deserialize, Serialize};

// --- serde for RawBar: [o,h,l,c,v] -------------------------------------------------------------
impl Serialize for RawBar {
    fn serialize<S: serde::Serializer>(&self, s: S) -> Result<S::Ok, S::Error> {
        [X(self.o), X(self.h), X(self.l), X(self.c), X(self.v)].serialize(s)
    }
}
impl<'de> Deserialize<'de> for RawBar {
    fn deserialize<D: serde::Deserializer<'de>>(d: D) -> Result<RawBar, D::Error> {
        let a: [X; 5] = Deserialize::deserialize(d)?;
        Ok(RawBar { o: a[0].0, h: a[1].0, l: a[2].0, c: a[3].0, v: a[4].0 })
    }
}

/// Indicator configuration as it appears in a case.
#[derive(Clone, Debug, Serialize, Deserialize)]
pub struct Cfg {
    pub kind: Kind,
    pub p: Vec<usize>,
    pub m: X,
}
impl Cfg {
    pub fn params(&self) -> Params {
        Params::new(&self.p, self.m.0)
    }
    pub fn n(&self) -> usize {
        self.p.first().copied().unwrap_or(1)
    }
    pub fn tag(&self) -> String {
        crate::adapter::expected_display(self.kind, &self.params())
    }
    pub fn fp(&self, f: &mut crate::fw::Fp) {
        f.u(self.kind.idx() as u64);
        for &p in &self.p {
            f.u(p as u64);
        }
        f.f(self.m.0);
    }
}

// --- periods -------------------------------------------------------------------------------------

/// 35 % {1..5}, 35 % {6..32}, 30 % log-uniform up to cap (cap itself and 1 forced by weight).
pub fn period(cap: usize) -> BoxedStrategy<usize> {
    let cap = cap.max(1);
    if cap <= 5 {
        return (1..=cap).boxed();
    }
    let mid_hi = cap.min(32);
    let lcap = (cap as f64).ln();
    // structural periods: neighbours of powers of two and non-multiples of common block sizes
    // (where chunked loops, capacity thresholds and narrow counters change behaviour)
    const STRUCT: [usize; 24] = [31, 33, 63, 64, 65, 100, 127, 128, 129, 150, 191, 192, 200, 255, 256, 257, 300, 500, 511, 512, 513, 1000, 1023, 1024];
    let st: Vec<usize> = STRUCT.iter().copied().filter(|&x| x <= cap).collect();
    if st.is_empty() {
        return prop_oneof![
            33 => 1usize..=5,
            2 => Just(1usize),
            33 => 6usize..=mid_hi,
            28 => (0.0f64..1.0).prop_map(move |u| ((u * lcap).exp().round() as usize).clamp(1, cap)),
            4 => Just(cap),
        ]
        .boxed();
    }
    let nst = st.len();
    prop_oneof![
        30 => 1usize..=5,
        2 => Just(1usize),
        30 => 6usize..=mid_hi,
        22 => (0.0f64..1.0).prop_map(move |u| ((u * lcap).exp().round() as usize).clamp(1, cap)),
        12 => (0..nst).prop_map(move |i| st[i]),
        4 => Just(cap),
    ]
    .boxed()
}

pub fn small_period(cap: usize) -> BoxedStrategy<usize> {
    (1..=cap.max(1)).boxed()
}

pub fn multiplier_any() -> BoxedStrategy<f64> {
    prop_oneof![
        Just(0.0),
        Just(1.0),
        Just(2.0),
        Just(2.5),
        Just(-1.0),
        Just(1e-3),
        Just(1e3),
        (-10.0f64..10.0),
    ]
    .boxed()
}
pub fn multiplier_nonneg() -> BoxedStrategy<f64> {
    prop_oneof![
        Just(0.0),
        Just(1e-9),
        Just(1.0),
        Just(2.0),
        Just(3.0),
        Just(1e3),
        Just(1e6),
        (0.0f64..10.0),
        // "incl. 0 and large": finite multipliers beyond the f32 range and at the top of the f64 range (a product
        // with a zero width is 0, with a positive one at most +inf: the order relations still hold)
        (0usize..3).prop_map(|i| [1e39, 1e300, f64::MAX][i]),
    ]
    .boxed()
}

/// configuration for a kind with periods from the mixture
pub fn cfg_for(kind: Kind, cap: usize, mult: BoxedStrategy<f64>) -> BoxedStrategy<Cfg> {
    let np = kind.n_periods();
    // several periods: mostly independent draws, but also the relations a special case can hide behind —
    // all equal, second = first, second a multiple of the first, last = 1, first = 1
    let ps = (vec(period(cap), np..=np), 0usize..12)
        .prop_map(move |(mut p, rel)| {
            if p.len() >= 2 {
                match rel {
                    0 => {
                        let a = p[0];
                        for q in p.iter_mut() {
                            *q = a;
                        }
                    }
                    1 => p[1] = p[0],
                    2 => p[1] = if p[0] * 2 <= cap.max(2) { p[0] * 2 } else { p[0] },
                    3 => {
                        let l = p.len() - 1;
                        p[l] = 1;
                    }
                    4 => p[0] = 1,
                    5 => p[1] = if p[0] * 3 <= cap.max(3) { p[0] * 3 } else { p[0] },
                    _ => {}
                }
            }
            p
        })
        .boxed();
    if kind.has_mult() {
        (ps, mult).prop_map(move |(p, m)| Cfg { kind, p, m: X(m) }).boxed()
    } else {
        ps.prop_map(move |p| Cfg { kind, p, m: X(0.0) }).boxed()
    }
}
pub fn cfg_among(kinds: &'static [Kind], cap: usize, mult: fn() -> BoxedStrategy<f64>) -> BoxedStrategy<Cfg> {
    (0..kinds.len()).prop_flat_map(move |i| cfg_for(kinds[i], cap, mult())).boxed()
}
pub fn any_kind() -> BoxedStrategy<Kind> {
    (0..ALL_KINDS.len()).prop_map(|i| ALL_KINDS[i]).boxed()
}

// --- scalar streams --------------------------------------------------------------------------------

#[derive(Clone, Copy, Debug, PartialEq)]
pub enum Domain {
    /// finite, any sign, |x| <= 1e12
    AnySign,
    /// positive prices 1e-3 .. 1e9
    Positive,
    /// positive, multiples of a power-of-two grid (differences exact; ties exact)
    PositiveGrid,
    /// positive prices quoted in an extremely small unit: around 1e-300 (normal numbers whose
    /// differences and products are subnormal) or around 3e-310 (subnormal themselves)
    TinyPositive,
    /// any sign, magnitudes around 1e-305
    TinyAnySign,
    /// like TinyPositive but the prices themselves stay normal numbers (1e-306 .. 1e-297)
    TinyNormal,
    /// positive prices in an enormous unit: 1e304 .. 5e307 (sums of three stay finite, 100*x does not)
    Huge,
    /// scalar prices up to 1.7e308 (the top binade: 2*x overflows)
    HugeScalar,
}

pub const N_REGIMES: usize = 13;
pub const REGIME_NAMES: [&str; N_REGIMES] = ["walk", "trend", "alternate", "spikes", "plateaus", "sawtooth", "nearflat", "gridties", "widemag", "tinyzero", "geometric", "ulpflat", "trendshock"];

/// Expand (regime, base, aux, noise) into a value stream. Pure function.
pub fn expand(domain: Domain, regime: usize, base: f64, aux: f64, noise: &[f64]) -> Vec<f64> {
    let n = noise.len();
    let mut out = Vec::with_capacity(n);
    let mut x = base * (1.0 + aux);
    // saw-tooth period: short (2..=10), or for the upper part of aux long (12..~400) and triangular (V-shaped legs
    // longer than most windows: a turn followed by a long one-directional run)
    let saw_p = if aux < 0.6 { 2 + (aux * 15.0) as usize } else { 12 + ((aux - 0.6) * 1000.0) as usize };
    let mut geo_down = true;
    let mut ts_dir = if aux < 0.5 { -1.0 } else { 1.0 };
    let mut ts_bounce = 0usize;
    for (i, &u) in noise.iter().enumerate() {
        let v = match regime {
            0 => {
                x *= 1.0 + 0.08 * (u - 0.5);
                x
            }
            1 => {
                let dir = if aux < 0.5 { 1.0 } else { -1.0 };
                let step = 0.9 / (n.max(1) as f64);
                base * (1.0 + dir * step * i as f64 + 0.001 * u) + if dir < 0.0 { base } else { 0.0 }
            }
            2 => {
                if i % 2 == 0 {
                    base * (1.0 + 0.001 * u)
                } else {
                    base * 1000.0 * (1.0 - 0.001 * u)
                }
            }
            3 => {
                if u > 0.96 {
                    base * 1e6 * u
                } else {
                    base * (1.0 + 0.02 * u)
                }
            }
            4 => {
                // plateaus: short runs (about 5) or, for the upper half of aux, long ones (about 50)
                let thr = if aux < 0.5 { 0.8 } else { 0.98 };
                if u > thr {
                    x = base * (1.0 + 5.0 * (u - thr) / (1.0 - thr) * 0.2);
                }
                x
            }
            5 => {
                let ph = i % saw_p;
                let k = if saw_p >= 12 && (i / saw_p) % 2 == 1 { saw_p - ph } else { ph };
                base * (1.0 + k as f64 * if saw_p >= 12 { 0.01 } else { 0.25 })
            }
            // nearly flat: eight levels k*d around the base, d = 2^-20 .. 2^-51 relative (chosen per stream): relative
            // thresholds of any size hidden in a "constant window" test sit between two of these
            6 => base * (1.0 + ((u * 8.0).floor() - 3.0) * 2f64.powi(-20 - (aux * 32.0) as i32)),
            7 => base * (1.0 + (u * 16.0).floor()) / 16.0,
            8 => {
                let e = -6.0 + 18.0 * u;
                10f64.powf(e)
            }
            11 => {
                // a window that is almost flat at ulp resolution: base + k ulps, k in 0..8
                f64::from_bits((base * (1.0 + aux)).to_bits() + (u * 8.0) as u64)
            }
            12 => {
                // a steady one-directional drift (dozens to hundreds of strictly monotone steps) interrupted by a
                // shock further in the same direction and a partial retrace over the next few steps; the drift
                // turns around when it leaves [base/40, 40 base]
                if i == 0 {
                    x = base * (1.0 + aux);
                }
                if ts_bounce > 0 {
                    ts_bounce -= 1;
                    x *= 1.0 - ts_dir * 0.07 * (0.2 + u);
                } else if u > 0.975 {
                    x *= 1.0 + ts_dir * 0.3;
                    ts_bounce = 2 + (u * 1000.0) as usize % 3;
                } else {
                    x *= 1.0 + ts_dir * 0.003 * (0.25 + u);
                }
                if x > base * 40.0 {
                    ts_dir = -1.0;
                } else if x < base / 40.0 {
                    ts_dir = 1.0;
                }
                x
            }
            10 => {
                // smooth multi-decade sell-off (then rally): every step moves 2 % .. 30 % in one direction,
                // no single step dominates; turns around after ~12 decades
                if i == 0 {
                    x = base * 1e3 * (1.0 + aux);
                }
                let rate = 0.02 + 0.28 * aux * aux;
                if x < base * 1e-9 {
                    geo_down = false;
                } else if x > base * 2e3 {
                    geo_down = true;
                }
                let f = 1.0 - rate * (0.3 + 0.7 * u);
                x = if geo_down { x * f } else { x / f };
                x
            }
            _ => {
                // signed zeros, subnormals and the smallest normals between ordinary values (the first
                // value is ordinary so that the largest magnitude M is a normal number)
                const T: [f64; 10] = [0.0, -0.0, 5e-324, -5e-324, 1e-310, -1e-310, f64::MIN_POSITIVE, -f64::MIN_POSITIVE, 1e-300, -3e-290];
                let j = (u * 16.0) as usize;
                if i == 0 || j >= 10 {
                    base * (0.5 + u)
                } else {
                    T[j]
                }
            }
        };
        out.push(v);
    }
    match domain {
        Domain::Positive => {
            let (lo, hi) = if base < 1e-3 || base > 1e9 { (base * 1e-3, base * 1e7) } else if regime == 10 { (base * 1e-10, base * 1e7) } else { (1e-3, 1e9) };
            for v in out.iter_mut() {
                *v = v.abs().clamp(lo, hi);
            }
        }
        Domain::PositiveGrid => {
            // grid step g = 2^k with base/256 <= g
            let g = grid_step(base);
            for v in out.iter_mut() {
                let q = (v.abs() / g).round().max(1.0);
                *v = (q * g).clamp(g, if base > 1e6 { base * 1e7 } else { 1e9 });
            }
        }
        Domain::Huge => {
            for v in out.iter_mut() {
                *v = v.abs().clamp(base * 1e-3, 5e307);
            }
        }
        Domain::HugeScalar => {
            for v in out.iter_mut() {
                *v = v.abs().clamp(base * 1e-3, 1.7e308);
            }
        }
        Domain::TinyPositive | Domain::TinyNormal => {
            for v in out.iter_mut() {
                *v = v.abs().clamp(base * 1e-3, base * 1e7);
            }
        }
        Domain::AnySign | Domain::TinyAnySign => {
            // regime-dependent sign treatment: straddle zero for half the aux range
            let mode = ((aux * 4.0) as usize) % 4;
            let centre = base * match regime {
                2 => 500.0,
                5 => 1.5,
                _ => 1.0,
            };
            for (i, v) in out.iter_mut().enumerate() {
                *v = match mode {
                    0 => *v,
                    1 => -*v,
                    2 => *v - centre,
                    _ => {
                        if (noise[i] * 1024.0) as u64 % 2 == 0 {
                            *v
                        } else {
                            -*v
                        }
                    }
                };
                if !v.is_finite() {
                    *v = 0.0;
                }
                *v = v.clamp(-1e12, 1e12);
            }
        }
    }
    out
}

fn base_strategy(domain: Domain) -> BoxedStrategy<f64> {
    match domain {
        Domain::AnySign => prop_oneof![
            12 => (-3.0f64..6.0).prop_map(|e| 10f64.powf(e)),
            4 => Just(1.0),
            4 => Just(1e-6),
            4 => Just(1e5),
            1 => Just(1e-17),
            1 => Just(3e-30),
        ]
        .boxed(),
        Domain::Positive => prop_oneof![
            16 => (-2.0f64..5.0).prop_map(|e| 10f64.powf(e)),
            4 => Just(1.0),
            4 => Just(85.18),
            // unusual but valid price units (sub-atto quotes, hyper-inflated ones): an absolute
            // epsilon or constant in the code shows up only here
            1 => Just(1e-30),
            1 => Just(3.7e-17),
            1 => Just(1e15),
        ]
        .boxed(),
        Domain::TinyPositive => prop_oneof![Just(1e-300), Just(3e-310), Just(2e-306)].boxed(),
        Domain::TinyAnySign => prop_oneof![Just(1e-305), Just(4e-303)].boxed(),
        Domain::TinyNormal => prop_oneof![Just(1e-300), Just(2e-303), Just(5e-304)].boxed(),
        Domain::Huge => prop_oneof![Just(2e306), Just(5e305), Just(1e304)].boxed(),
        Domain::HugeScalar => prop_oneof![Just(4e307), Just(1e307), Just(2.5e307)].boxed(),
        Domain::PositiveGrid => prop_oneof![
            12 => (-6i32..=20).prop_map(|k| 2f64.powi(k)),
            1 => Just(2f64.powi(-70)),
            1 => Just(2f64.powi(-52)),
            1 => Just(2f64.powi(45)),
        ]
        .boxed(),
    }
}

#[derive(Clone, Debug)]
pub struct Stream {
    pub regime: usize,
    pub vals: Vec<f64>,
}

/// stream with the regime recorded (for labels)
pub fn stream(domain: Domain, min_len: usize, max_len: usize) -> BoxedStrategy<Stream> {
    (0..N_REGIMES, base_strategy(domain), 0.0f64..1.0, vec(0.0f64..1.0, min_len..=max_len))
        .prop_map(move |(regime, base, aux, noise)| {
            let regime = if domain != Domain::AnySign && (regime == 8 || regime == 9) { regime - 8 } else { regime };
            let regime = if domain == Domain::PositiveGrid && regime == 11 { 6 } else { regime };
            // spikes of 1e6x would leave the tiny range: use the walk instead
            let regime = if matches!(domain, Domain::TinyPositive | Domain::TinyAnySign | Domain::TinyNormal | Domain::Huge | Domain::HugeScalar) && (regime == 3 || regime == 2) { 0 } else { regime };
            Stream { regime, vals: expand(domain, regime, base, aux, &noise) }
        })
        .boxed()
}

/// a stream built from up to three concatenated segments of different regimes / magnitudes
/// (this is what produces "huge values followed by flat stretches of small ones")
pub fn multi_stream(domain: Domain, min_len: usize, max_len: usize) -> BoxedStrategy<Stream> {
    let seg = move |lo: usize, hi: usize| stream(domain, lo, hi);
    prop_oneof![
        3 => seg(min_len, max_len),
        2 => (seg(min_len / 2, max_len / 2 + 1), seg(min_len / 2 + 1, max_len / 2 + 1)).prop_map(|(a, b)| {
            let mut v = a.vals;
            v.extend(b.vals);
            Stream { regime: a.regime, vals: v }
        }),
        1 => (seg(min_len / 3, max_len / 3 + 1), seg(min_len / 3 + 1, max_len / 3 + 1), seg(min_len / 3 + 1, max_len / 3 + 1)).prop_map(|(a, b, c)| {
            let mut v = a.vals;
            v.extend(b.vals);
            v.extend(c.vals);
            Stream { regime: a.regime, vals: v }
        }),
    ]
    .boxed()
}

// --- bars -----------------------------------------------------------------------------------------------

/// Valid bars (0 < low <= open,close <= high, volume >= 0) derived from a price path.
/// `grid`: all prices are multiples of a power-of-two step (differences and 3-term sums are exact).
pub fn bars_from(path: &[f64], shape: &[(f64, f64, f64, f64, f64)], grid: Option<f64>) -> Vec<RawBar> {
    let mut out = Vec::with_capacity(path.len());
    for (i, &mid) in path.iter().enumerate() {
        let (u_up, u_dn, u_c, u_o, u_v) = shape[i % shape.len().max(1)];
        let mid = if mid == 0.0 { 1e-3 } else { mid.abs() };
        // ranges: sometimes zero (one-price bar), sometimes tiny, sometimes large
        let rng_class = (u_up * 8.0) as usize;
        let spread = match rng_class {
            0 => 0.0,
            1 => mid * 1e-6,
            2..=5 => mid * 0.02 * u_up,
            _ => mid * 0.3 * u_up,
        };
        let mut h = mid + spread * (0.2 + u_dn);
        let mut l = (mid - spread * (1.2 - u_dn)).max(mid * 0.25);
        if let Some(g) = grid {
            h = ((h / g).ceil()).max(1.0) * g;
            l = ((l / g).floor()).max(1.0) * g;
        }
        if l > h {
            l = h;
        }
        let mut c = l + (h - l) * u_c;
        let mut o = l + (h - l) * u_o;
        if let Some(g) = grid {
            c = (c / g).round() * g;
            o = (o / g).round() * g;
        }
        c = c.clamp(l, h);
        o = o.clamp(l, h);
        // close pinned to an extreme sometimes
        let pin = (u_c * 16.0) as usize;
        if pin == 0 {
            c = l;
        } else if pin == 15 {
            c = h;
        }
        let vclass = (u_v * 10.0) as usize;
        let v = match vclass {
            0 => 0.0,
            1 => 1.0,
            2 => 1e-3 * (1.0 + u_v),
            3..=6 => (1000.0 * u_v).round(),
            7 => 1e9 * u_v,
            _ => (1e4 * u_v * u_v).round() + 1.0,
        };
        out.push(RawBar { o, h, l, c, v });
    }
    out
}

#[derive(Clone, Debug)]
pub struct BarStream {
    pub regime: usize,
    pub bars: Vec<RawBar>,
}

pub fn grid_step(base: f64) -> f64 {
    2f64.powi(((base / 256.0).log2()).floor() as i32)
}

pub fn bar_stream(grid: bool, min_len: usize, max_len: usize) -> BoxedStrategy<BarStream> {
    let dom = if grid { Domain::PositiveGrid } else { Domain::Positive };
    (
        0..N_REGIMES,
        base_strategy(dom),
        0.0f64..1.0,
        vec(0.0f64..1.0, min_len..=max_len),
        vec((0.0f64..1.0, 0.0f64..1.0, 0.0f64..1.0, 0.0f64..1.0, 0.0f64..1.0), 1..=64),
    )
        .prop_map(move |(regime, base, aux, noise, shape)| {
            let regime = if regime == 8 || regime == 9 { regime - 8 } else { regime };
            let vals = expand(dom, regime, base, aux, &noise);
            let g = if grid { Some(grid_step(base)) } else { None };
            let mut bars = bars_from(&vals, &shape, g);
            // structured but ordinary data, chosen per stream: every close at the high / at the low, every open
            // equal to the close, constant volume
            match (aux * 64.0) as usize % 16 {
                0 => bars.iter_mut().for_each(|b| b.c = b.h),
                1 => bars.iter_mut().for_each(|b| b.c = b.l),
                2 => bars.iter_mut().for_each(|b| b.o = b.c),
                3 => bars.iter_mut().for_each(|b| b.v = 100.0),
                4 => bars.iter_mut().for_each(|b| {
                    b.c = b.h;
                    b.v = 100.0
                }),
                // runs in which the highs and the lows follow series of their own instead of moving together around
                // one price: 5 = contracting ranges (every bar inside the previous one: highs fall while lows rise),
                // 6 = expanding ranges (highs rise while lows fall), 7 = a rising ceiling over a flat floor. A structure
                // that tracks both extremes and does its house-keeping only when one particular side moves meets its
                // worst case in exactly one of these.
                pat @ 5..=7 => {
                    let q = |x: f64| match g {
                        Some(st) if st > 0.0 => (x / st).round() * st,
                        _ => x,
                    };
                    let run = 12 + (aux * 4096.0) as usize % 120;
                    let gap = 5 + (aux * 512.0) as usize % 30;
                    let mut i = gap;
                    while i + run <= bars.len() {
                        let c0 = bars[i].c;
                        let w = 0.04 * c0.abs();
                        for k in 0..run {
                            let f = (k + 1) as f64 / (run + 1) as f64; // strictly increasing in (0,1)
                            let (h, l) = match pat {
                                5 => (c0 + w * (1.0 - f), c0 - w * (1.0 - f)),
                                6 => (c0 + w * f, c0 - w * f),
                                _ => (c0 + w * f, c0 - w * 0.5),
                            };
                            let (h, l) = (q(h), q(l));
                            if !(l <= h) || !(l > 0.0) {
                                continue;
                            }
                            let b = &mut bars[i + k];
                            let u = (b.c - b.l) / (b.h - b.l);
                            let u = if u.is_finite() { u.clamp(0.0, 1.0) } else { 0.5 };
                            b.h = h;
                            b.l = l;
                            b.c = q(l + (h - l) * u).clamp(l, h);
                            b.o = b.c;
                        }
                        i += run + gap;
                    }
                }
                _ => {}
            }
            BarStream { regime, bars }
        })
        .boxed()
}

/// one-price bars (open = high = low = close = the regime's value, so the close series has exactly the regime's
/// structure: near-flat levels, ulp neighbours, plateaus survive), volumes from a small set incl. 0
pub fn flat_bar_stream(grid: bool, min_len: usize, max_len: usize) -> BoxedStrategy<BarStream> {
    let dom = if grid { Domain::PositiveGrid } else { Domain::Positive };
    (stream(dom, min_len, max_len), vec(0usize..6, 1..=16))
        .prop_map(|(s, vols)| BarStream { regime: s.regime, bars: s.vals.iter().enumerate().map(|(i, &x)| crate::adapter::RawBar::flat(x, [0.0, 1.0, 1.0, 250.0, 1e4, 37.5][vols[i % vols.len()]])).collect() })
        .boxed()
}

/// valid bars quoted in an extremely small price unit (see Domain::TinyPositive)
pub fn bar_stream_tiny(min_len: usize, max_len: usize) -> BoxedStrategy<BarStream> {
    bar_stream_dom(Domain::TinyPositive, min_len, max_len)
}
pub fn bar_stream_dom(dom: Domain, min_len: usize, max_len: usize) -> BoxedStrategy<BarStream> {
    (stream(dom, min_len, max_len), vec((0.0f64..1.0, 0.0f64..1.0, 0.0f64..1.0, 0.0f64..1.0, 0.0f64..1.0), 1..=64))
        .prop_map(|(s, shape)| BarStream { regime: s.regime, bars: bars_from(&s.vals, &shape, None) })
        .boxed()
}

// --- special values ------------------------------------------------------------------------------------------

pub const SPECIALS: [f64; 12] = [
    f64::NAN,
    f64::INFINITY,
    f64::NEG_INFINITY,
    f64::MAX,
    f64::MIN,
    f64::MIN_POSITIVE,
    -f64::MIN_POSITIVE,
    5e-324,
    -5e-324,
    0.0,
    -0.0,
    1e308,
];

pub fn special() -> BoxedStrategy<f64> {
    (0..SPECIALS.len()).prop_map(|i| SPECIALS[i]).boxed()
}

/// ordinary finite value of moderate size (any sign)
pub fn ordinary() -> BoxedStrategy<f64> {
    prop_oneof![
        4 => (0.5f64..200.0),
        1 => (-100.0f64..100.0),
        1 => (0usize..8).prop_map(|i| [1.0, 2.0, 2.5, 4.0, 10.0, 0.1, 100.0, 3.0][i]),
    ]
    .boxed()
}

/// value that is special with probability `pct` %
pub fn maybe_special(pct: u32) -> BoxedStrategy<f64> {
    prop_oneof![
        (100 - pct) => ordinary(),
        pct => special(),
    ]
    .boxed()
}

/// a bar whose five fields are drawn independently (not consistent OHLC)
pub fn raw_bar(field: fn() -> BoxedStrategy<f64>) -> BoxedStrategy<RawBar> {
    (field(), field(), field(), field(), field()).prop_map(|(o, h, l, c, v)| RawBar { o, h, l, c, v }).boxed()
}

/// a consistent bar of moderate size
pub fn valid_bar() -> BoxedStrategy<RawBar> {
    (1.0f64..200.0, 0.0f64..1.0, 0.0f64..1.0, 0.0f64..1.0, 0.0f64..1.0, 0usize..7)
        .prop_map(|(mid, a, b, c, o, vc)| {
            let h = mid * (1.0 + 0.1 * a);
            let l = mid * (1.0 - 0.1 * b);
            let v = [0.0, 1.0, 10.0, 1234.5, 1e6, 0.5, 1e21][vc];
            RawBar { o: l + (h - l) * o, h, l, c: l + (h - l) * c, v }
        })
        .boxed()
}

/// An input to an indicator: a bar plus a flag asking for the scalar path (on bar.c) where it exists.
#[derive(Clone, Debug, Serialize, Deserialize)]
pub struct Inp {
    pub bar: RawBar,
    pub scalar: bool,
}

pub fn feed(ind: &mut crate::adapter::Ind, inp: &Inp) -> crate::adapter::Out {
    if inp.scalar && ind.kind().scalar() {
        ind.next_scalar(inp.bar.c)
    } else {
        ind.next_bar(&inp.bar)
    }
}

/// finite ordinary inputs (valid bars; scalar flag random)
pub fn inp_finite() -> BoxedStrategy<Inp> {
    (valid_bar(), any::<bool>()).prop_map(|(bar, scalar)| Inp { bar, scalar }).boxed()
}
/// inputs whose fields may be special values (pct % per field), not necessarily consistent
pub fn inp_special(pct: u32) -> BoxedStrategy<Inp> {
    let f = move || maybe_special(pct);
    ((f(), f(), f(), f(), f()), any::<bool>()).prop_map(|((o, h, l, c, v), scalar)| Inp { bar: RawBar { o, h, l, c, v }, scalar }).boxed()
}
