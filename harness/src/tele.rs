//! Identity events. C05 and C06 say that a clone, the target of `clone_from`, and (serde builds) a
//! deserialized copy are observationally the same instance as their source for every continuation. Every
//! other property quantifies over "any history" of such an instance, so its check may replace the instance
//! under test by one of these at any step and must not notice. On the unchanged code the events are the
//! identity; a hand-written `Clone`/`clone_from`, a skipped serde field or a buffer reused by `clone_from`
//! shows up as a violation of the property whose oracle is running.
//!
//! The plan lives in a thread-local for the duration of one case (each worker thread runs one case at a
//! time), so the per-property case types and check signatures stay as they are; the check calls
//! `tele::step(&mut ind, &cfg)` before every input it feeds to the instance under test.

use crate::adapter::{Ind, RawBar};
use crate::fw::X;
use crate::gen::Cfg;
use proptest::prelude::*;
use serde::{Deserialize, Serialize};
use std::cell::RefCell;

#[derive(Clone, Debug, Serialize, Deserialize)]
pub struct Event {
    /// position pick, decoded by `Plan::positions` against the case's length and period
    pub pick: u16,
    /// 1 = `clone()`; 2 = `target.clone_from(&instance)` with a used target; 3 = serde round trip (serde build,
    /// otherwise a clone); 5 = Display, Debug and the accessors are called (they must have no effect);
    /// 4 = `reset()` of every instance the check runs side by side (only in checks that ask
    /// `due_reset()`; not an identity event: the check restarts its own window bookkeeping)
    pub mode: u8,
    /// the clone_from target's own earlier history (one price per input)
    pub dirt: Vec<X>,
    /// the clone_from target was built with every period longer by this much
    pub delta: usize,
}

#[derive(Clone, Debug, Serialize, Deserialize)]
pub struct Plan {
    pub events: Vec<Event>,
    /// non-zero: on about a quarter of the steps (chosen by this seed) a bar-fed instance that also has a
    /// scalar path is fed `next(close)` instead of `next(&bar)`; the check's reference then sees the one-price
    /// bar open = high = low = close that the scalar path stands for
    #[serde(default)]
    pub mix: u64,
}

#[derive(Clone, Debug, Serialize, Deserialize)]
pub struct TCase<C> {
    pub case: C,
    pub plan: Plan,
}

struct Active {
    mix: u64,
    mcalls: u64,
    at: Vec<(usize, Event)>,
    calls: usize,
    rcalls: usize,
    applied: usize,
}

thread_local! {
    static PLAN: RefCell<Option<Active>> = const { RefCell::new(None) };
}

struct Guard;
impl Drop for Guard {
    fn drop(&mut self) {
        PLAN.with(|p| *p.borrow_mut() = None);
    }
}

fn position(pick: u16, len: usize, n: usize) -> usize {
    let n = n.max(1);
    let r = (pick / 4) as usize;
    let pos = match pick % 4 {
        0 => n * (1 + r % 4),                 // the ring is back at phase 0
        1 => r % (n + 1),                     // during warm-up (source not yet full)
        2 => n * (1 + r % 3) + 1 + r % n,     // full window, some other phase
        _ => r % len.max(1),
    };
    pos.min(len.saturating_sub(1))
}

/// Run `f` (one case of a property check) with the plan active; returns f's result and how many events
/// were actually applied.
pub fn with_plan<R>(plan: &Plan, len: usize, n: usize, f: impl FnOnce() -> R) -> (R, usize) {
    let at = plan.events.iter().map(|e| (position(e.pick, len, n), e.clone())).collect();
    PLAN.with(|p| *p.borrow_mut() = Some(Active { mix: plan.mix, mcalls: 0, at, calls: 0, rcalls: 0, applied: 0 }));
    let _g = Guard;
    let r = f();
    let applied = PLAN.with(|p| p.borrow().as_ref().map(|a| a.applied).unwrap_or(0));
    (r, applied)
}

fn dirt_bar(v: f64) -> RawBar {
    RawBar { o: v, h: v * 1.02 + 0.5, l: v * 0.97 - 0.25, c: v * 1.01, v: (v * 10.0).abs().min(1e12) }
}

fn apply(ind: &mut Ind, cfg: &Cfg, e: &Event) {
    match e.mode {
        2 => {
            let mut tcfg = cfg.clone();
            for q in tcfg.p.iter_mut() {
                *q = q.saturating_add(e.delta);
            }
            let mut t = match Ind::build(cfg.kind, &tcfg.params()) {
                Ok(t) => t,
                Err(_) => panic!("HARNESS: tele target build"),
            };
            for d in &e.dirt {
                if t.kind().scalar() && d.0.to_bits() & 1 == 0 {
                    t.next_scalar(d.0);
                } else {
                    t.next_bar(&dirt_bar(d.0));
                }
            }
            t.clone_from_same(ind);
            *ind = t;
        }
        #[cfg(feature = "serde")]
        3 => {
            let bytes = match ind.ser() {
                Ok(b) => b,
                Err(e) => panic!("serialization of a live instance failed: {}", e),
            };
            match Ind::de(cfg.kind, &bytes) {
                Ok(i) => *ind = i,
                Err(e) => panic!("deserialization of the instance's own bytes failed: {}", e),
            }
        }
        5 => {
            let _ = ind.display();
            let _ = ind.debug();
            let _ = ind.period();
            let _ = ind.multiplier();
        }
        _ => {
            let c = ind.clone();
            *ind = c;
        }
    }
}

/// Call before every input fed to the instance under test.
#[inline]
pub fn step(ind: &mut Ind, cfg: &Cfg) {
    PLAN.with(|p| {
        let mut b = p.borrow_mut();
        if let Some(a) = b.as_mut() {
            let c = a.calls;
            a.calls += 1;
            let todo: Vec<Event> = a.at.iter().filter(|(pos, e)| *pos == c && e.mode != 4).map(|(_, e)| e.clone()).collect();
            a.applied += todo.len();
            drop(b);
            for e in &todo {
                apply(ind, cfg, e);
            }
        }
    });
}

/// Call once per bar input of an instance that has a scalar path: true if this step is to go through
/// `next(close)` instead of `next(&bar)`.
#[inline]
pub fn scalar_here() -> bool {
    PLAN.with(|p| {
        let mut b = p.borrow_mut();
        match b.as_mut() {
            Some(a) if a.mix != 0 => {
                a.mcalls += 1;
                let mut z = a.mix ^ a.mcalls.wrapping_mul(0x9E3779B97F4A7C15);
                z = (z ^ (z >> 30)).wrapping_mul(0xBF58476D1CE4E5B9);
                z = (z ^ (z >> 27)).wrapping_mul(0x94D049BB133111EB);
                (z >> 40) % 4 == 0
            }
            _ => false,
        }
    })
}

/// Call once per input, before `step`: true if a reset of all side-by-side instances is scheduled here.
#[inline]
pub fn due_reset() -> bool {
    PLAN.with(|p| {
        let mut b = p.borrow_mut();
        if let Some(a) = b.as_mut() {
            let c = a.rcalls;
            a.rcalls += 1;
            let due = c > 0 && a.at.iter().any(|(pos, e)| *pos == c && e.mode == 4);
            if due {
                a.applied += 1;
            }
            due
        } else {
            false
        }
    })
}

/// plans for checks that implement `due_reset()`: resets mixed with identity events
pub fn plan_with_resets() -> BoxedStrategy<Plan> {
    let ev = (event(), 0u8..3).prop_map(|(mut e, r)| {
        if r > 0 {
            e.mode = 4;
            e.dirt.clear();
        }
        e
    });
    (proptest::collection::vec(ev, 1..4), prop_oneof![2 => Just(0u64), 1 => any::<u64>()]).prop_map(|(events, mix)| Plan { events, mix }).boxed()
}
pub fn wrap_resets<C: std::fmt::Debug + Clone + 'static>(s: BoxedStrategy<C>) -> BoxedStrategy<TCase<C>> {
    (s, plan_with_resets()).prop_map(|(case, plan)| TCase { case, plan }).boxed()
}

pub fn event() -> BoxedStrategy<Event> {
    (
        any::<u16>(),
        prop_oneof![1 => Just(1u8), 4 => Just(2u8), 2 => Just(3u8), 1 => Just(5u8)],
        proptest::collection::vec(prop_oneof![3 => 0.5f64..300.0, 1 => 1e-3f64..1.0, 1 => 1e3f64..1e6], 0..24),
        prop_oneof![3 => Just(0usize), 1 => 1usize..4, 1 => 5usize..40],
    )
        .prop_map(|(pick, mode, dirt, delta)| Event { pick, mode, dirt: dirt.into_iter().map(X).collect(), delta })
        .boxed()
}

pub fn plan() -> BoxedStrategy<Plan> {
    (proptest::collection::vec(event(), 1..3), prop_oneof![2 => Just(0u64), 1 => any::<u64>()]).prop_map(|(events, mix)| Plan { events, mix }).boxed()
}

/// wrap a case strategy
pub fn wrap<C: std::fmt::Debug + Clone + 'static>(s: BoxedStrategy<C>) -> BoxedStrategy<TCase<C>> {
    (s, plan()).prop_map(|(case, plan)| TCase { case, plan }).boxed()
}

/// run one wrapped case: `inner` is the property's ordinary check
pub fn check_wrapped<C>(t: &TCase<C>, ctx: &mut crate::fw::Ctx, len: usize, n: usize, inner: impl FnOnce(&C, &mut crate::fw::Ctx) -> Result<(), crate::fw::Failure>) -> Result<(), crate::fw::Failure> {
    let (r, applied) = with_plan(&t.plan, len, n, || inner(&t.case, &mut *ctx));
    if applied > 0 {
        ctx.label("identity_events_applied");
    }
    r
}
