//! Framework: tiers, seeds, parallel proptest / exhaustive runners, replay, evidence, known findings.

use proptest::strategy::{BoxedStrategy, Strategy};
use proptest::test_runner::{Config, RngAlgorithm, RngSeed, TestCaseError, TestError, TestRunner};
use serde::de::DeserializeOwned;
use serde::{Deserialize, Serialize};
use serde_json::{json, Value};
use std::cell::RefCell;
use std::collections::{BTreeMap, HashSet};
use std::panic::{catch_unwind, AssertUnwindSafe};
use std::sync::atomic::{AtomicBool, AtomicU64, Ordering};
use std::sync::Mutex;
use std::time::Instant;

pub const WORKERS: usize = 16;

#[derive(Clone, Copy, Debug, PartialEq, Eq)]
pub enum Tier {
    Quick,
    Thorough,
}
impl Tier {
    pub fn pick<T>(self, q: T, t: T) -> T {
        match self {
            Tier::Quick => q,
            Tier::Thorough => t,
        }
    }
    pub fn name(self) -> &'static str {
        self.pick("quick", "thorough")
    }
}

// ---------------------------------------------------------------------------------------------
// f64 wrapper that survives JSON (NaN, inf, -0.0, exact bits)

#[derive(Clone, Copy, PartialEq)]
pub struct X(pub f64);

impl std::fmt::Debug for X {
    fn fmt(&self, f: &mut std::fmt::Formatter) -> std::fmt::Result {
        write!(f, "{:?}", self.0)
    }
}
impl Serialize for X {
    fn serialize<S: serde::Serializer>(&self, s: S) -> Result<S::Ok, S::Error> {
        if self.0.is_finite() && !(self.0 == 0.0 && self.0.is_sign_negative()) {
            s.serialize_f64(self.0)
        } else {
            s.serialize_str(&format!("bits:{:016x}", self.0.to_bits()))
        }
    }
}
impl<'de> Deserialize<'de> for X {
    fn deserialize<D: serde::Deserializer<'de>>(d: D) -> Result<X, D::Error> {
        let v = Value::deserialize(d)?;
        match v {
            Value::Number(n) => Ok(X(n.as_f64().ok_or_else(|| serde::de::Error::custom("bad number"))?)),
            Value::String(s) => {
                let h = s.strip_prefix("bits:").ok_or_else(|| serde::de::Error::custom("bad f64 string"))?;
                let b = u64::from_str_radix(h, 16).map_err(serde::de::Error::custom)?;
                Ok(X(f64::from_bits(b)))
            }
            _ => Err(serde::de::Error::custom("bad f64")),
        }
    }
}
pub fn xs(v: &[f64]) -> Vec<X> {
    v.iter().map(|&x| X(x)).collect()
}
pub fn fs(v: &[X]) -> Vec<f64> {
    v.iter().map(|x| x.0).collect()
}

// ---------------------------------------------------------------------------------------------
// fingerprints for distinctness

#[derive(Clone, Copy)]
pub struct Fp(pub u64);
impl Fp {
    pub fn new(tag: &str) -> Fp {
        let mut f = Fp(0xcbf29ce484222325);
        for b in tag.bytes() {
            f.u(b as u64);
        }
        f
    }
    #[inline]
    pub fn u(&mut self, x: u64) {
        let mut h = self.0 ^ x.wrapping_mul(0x9E3779B97F4A7C15);
        h = (h ^ (h >> 32)).wrapping_mul(0xD6E8FEB86659FD93);
        self.0 = h ^ (h >> 29);
    }
    #[inline]
    pub fn f(&mut self, x: f64) {
        self.u(x.to_bits())
    }
    pub fn fsl(&mut self, v: &[f64]) {
        for &x in v {
            self.f(x)
        }
    }
}

pub fn splitmix(state: &mut u64) -> u64 {
    *state = state.wrapping_add(0x9E3779B97F4A7C15);
    let mut z = *state;
    z = (z ^ (z >> 30)).wrapping_mul(0xBF58476D1CE4E5B9);
    z = (z ^ (z >> 27)).wrapping_mul(0x94D049BB133111EB);
    z ^ (z >> 31)
}
/// uniform in [0,1) from a splitmix state — used only to *expand* a generated seed into a long
/// stream (the seed itself comes from the proptest generator, so the case stays a pure value).
pub fn unit(state: &mut u64) -> f64 {
    (splitmix(state) >> 11) as f64 / (1u64 << 53) as f64
}

// ---------------------------------------------------------------------------------------------

#[derive(Clone, Debug)]
pub struct Failure {
    pub signature: String,
    pub detail: String,
}

#[derive(Default)]
pub struct Stats {
    pub evaluations: u64,
    pub nontrivial: HashSet<u64>,
    pub labels: BTreeMap<String, u64>,
    pub samples: Vec<Value>,
    pub known_hits: BTreeMap<String, u64>,
    pub worst: BTreeMap<String, f64>,
    /// non-trivial cases of exhaustive stages (distinct by construction: one per index)
    pub nontrivial_enum: u64,
}
impl Stats {
    pub fn distinct_nontrivial(&self) -> u64 {
        self.nontrivial.len() as u64 + self.nontrivial_enum
    }
    pub fn merge(&mut self, o: Stats) {
        self.evaluations += o.evaluations;
        self.nontrivial_enum += o.nontrivial_enum;
        self.nontrivial.extend(o.nontrivial);
        for (k, v) in o.labels {
            *self.labels.entry(k).or_insert(0) += v;
        }
        // all of them are kept here (a few per worker and stage); `finish` picks a few per stage
        for s in o.samples {
            if self.samples.len() < 2000 {
                self.samples.push(s);
            }
        }
        for (k, v) in o.known_hits {
            *self.known_hits.entry(k).or_insert(0) += v;
        }
        for (k, v) in o.worst {
            let e = self.worst.entry(k).or_insert(0.0);
            if v > *e {
                *e = v;
            }
        }
    }
}

#[derive(Deserialize, Clone, Debug)]
pub struct KnownEntry {
    pub property: String,
    pub signature: String,
    pub status: String,
    #[serde(default)]
    pub commit: Option<String>,
    pub what: String,
}
#[derive(Deserialize, Default)]
pub struct KnownFile {
    pub findings: Vec<KnownEntry>,
}

pub struct Ctx<'a> {
    pub stats: &'a mut Stats,
    pub known: &'a [KnownEntry],
    pub id: &'static str,
    pub counting: bool,
    pub strict: bool,
    /// set in exhaustive stages: every case is a distinct index, so count instead of hashing
    pub by_construction: bool,
}
impl<'a> Ctx<'a> {
    /// Report a failed expectation. Returns Ok(()) (and counts it) when the signature is a listed
    /// known finding, so the search continues behind it; Err otherwise.
    pub fn fail(&mut self, signature: String, detail: String) -> Result<(), Failure> {
        if !self.strict && self.known.iter().any(|k| k.status == "known" && k.property == self.id && k.signature == signature) {
            if self.counting {
                *self.stats.known_hits.entry(signature).or_insert(0) += 1;
            }
            return Ok(());
        }
        Err(Failure { signature, detail })
    }
    #[inline]
    pub fn label(&mut self, l: &str) {
        if self.counting {
            match self.stats.labels.get_mut(l) {
                Some(c) => *c += 1,
                None => {
                    self.stats.labels.insert(l.to_string(), 1);
                }
            }
        }
    }
    pub fn label_n(&mut self, l: &str, n: u64) {
        if self.counting && n > 0 {
            *self.stats.labels.entry(l.to_string()).or_insert(0) += n;
        }
    }
    pub fn nontrivial(&mut self, fp: Fp) {
        if self.counting {
            if self.by_construction {
                self.stats.nontrivial_enum += 1;
            } else {
                self.stats.nontrivial.insert(fp.0);
            }
        }
    }
    /// record the worst observed error/tolerance ratio per class (reported in evidence)
    pub fn worst(&mut self, class: &str, ratio: f64) {
        if self.counting && ratio.is_finite() {
            match self.stats.worst.get_mut(class) {
                Some(e) => {
                    if ratio > *e {
                        *e = ratio
                    }
                }
                None => {
                    self.stats.worst.insert(class.to_string(), ratio);
                }
            }
        }
    }
}

pub enum Mode {
    Run,
    Replay { stage: String, case: Value },
}

pub struct Global {
    pub id: &'static str,
    pub tier: Tier,
    pub seed: u64,
    pub mode: Mode,
    pub known: Vec<KnownEntry>,
    pub stats: Stats,
    pub stage_info: Vec<Value>,
    pub violations: Vec<(String, Failure, String)>, // (stage, failure, replay path)
    pub exhaustive_all: bool,
    pub any_exhaustive: bool,
    pub assumptions: Vec<String>,
    pub rule: String,
    pub start: Instant,
    pub verif_dir: String,
    pub replayed: u64,
    pub strict: bool,
}

thread_local! {
    static PANIC_MSG: RefCell<Option<String>> = RefCell::new(None);
}
static QUIET_PANICS: AtomicBool = AtomicBool::new(false);

pub fn install_panic_hook() {
    let default = std::panic::take_hook();
    std::panic::set_hook(Box::new(move |info| {
        let loc = info.location().map(|l| format!("{}:{}", l.file(), l.line())).unwrap_or_default();
        let msg = if let Some(s) = info.payload().downcast_ref::<&str>() {
            s.to_string()
        } else if let Some(s) = info.payload().downcast_ref::<String>() {
            s.clone()
        } else {
            "panic".to_string()
        };
        PANIC_MSG.with(|p| *p.borrow_mut() = Some(format!("{} @ {}", msg, loc)));
        if !QUIET_PANICS.load(Ordering::Relaxed) {
            default(info);
        }
    }));
    QUIET_PANICS.store(true, Ordering::Relaxed);
}
pub fn take_panic_msg() -> String {
    PANIC_MSG.with(|p| p.borrow_mut().take()).unwrap_or_else(|| "panic".into())
}
/// Run f, converting a panic into Err(message @ location).
pub fn guarded<T>(f: impl FnOnce() -> T) -> Result<T, String> {
    match catch_unwind(AssertUnwindSafe(f)) {
        Ok(v) => Ok(v),
        Err(_) => Err(take_panic_msg()),
    }
}
/// classify a panic message: harness bugs must never be reported as violations of ta
pub fn panic_is_harness(msg: &str) -> bool {
    if msg.contains("HARNESS") {
        return true;
    }
    let loc = msg.rsplit(" @ ").next().unwrap_or("");
    const H: [&str; 9] = ["src/fw.rs", "src/gen.rs", "src/refs.rs", "src/adapter.rs", "src/dd.rs", "src/props/", "src/bin/", "src/main.rs", "/registry/"];
    H.iter().any(|h| loc.contains(h))
}

fn truncate_value(v: &Value, depth: usize) -> Value {
    match v {
        Value::Array(a) => {
            let lim = if depth == 0 { 40 } else { 16 };
            if a.len() > lim {
                let mut out: Vec<Value> = a.iter().take(lim - 4).map(|x| truncate_value(x, depth + 1)).collect();
                out.push(Value::String(format!("... {} more ...", a.len() - lim + 2)));
                out.extend(a.iter().skip(a.len() - 2).map(|x| truncate_value(x, depth + 1)));
                Value::Array(out)
            } else {
                Value::Array(a.iter().map(|x| truncate_value(x, depth + 1)).collect())
            }
        }
        Value::Object(o) => Value::Object(o.iter().map(|(k, x)| (k.clone(), truncate_value(x, depth + 1))).collect()),
        _ => v.clone(),
    }
}

fn fnv(s: &str) -> u64 {
    let mut h: u64 = 0xcbf29ce484222325;
    for b in s.bytes() {
        h ^= b as u64;
        h = h.wrapping_mul(0x100000001b3);
    }
    h
}

pub trait CaseT: Clone + std::fmt::Debug + Send + Serialize + DeserializeOwned + 'static {}
impl<T: Clone + std::fmt::Debug + Send + Serialize + DeserializeOwned + 'static> CaseT for T {}

static KNOWN_PRINTED: std::sync::Mutex<std::collections::BTreeSet<String>> = std::sync::Mutex::new(std::collections::BTreeSet::new());

impl Global {
    pub fn new(id: &'static str, tier: Tier, seed: u64, mode: Mode, verif_dir: String, strict: bool) -> Global {
        let known: Vec<KnownEntry> = std::fs::read_to_string(format!("{}/known_findings.json", verif_dir))
            .ok()
            .and_then(|s| serde_json::from_str::<KnownFile>(&s).ok())
            .map(|k| k.findings)
            .unwrap_or_default();
        Global {
            id,
            tier,
            seed,
            mode,
            known,
            stats: Stats::default(),
            stage_info: vec![],
            violations: vec![],
            exhaustive_all: true,
            any_exhaustive: false,
            assumptions: vec![],
            rule: String::new(),
            start: Instant::now(),
            verif_dir,
            replayed: 0,
            strict,
        }
    }

    pub fn is_replay(&self) -> bool {
        matches!(self.mode, Mode::Replay { .. })
    }

    fn stage_seed(&self, stage: &str, worker: usize) -> [u8; 32] {
        let mut s = self.seed ^ fnv(self.id).rotate_left(17) ^ fnv(stage).rotate_left(41) ^ (worker as u64).wrapping_mul(0xA24BAED4963EE407);
        let mut out = [0u8; 32];
        for i in 0..4 {
            out[i * 8..i * 8 + 8].copy_from_slice(&splitmix(&mut s).to_le_bytes());
        }
        out
    }

    fn record_violation<C: CaseT>(&mut self, stage: &str, case: &C, f: Failure) {
        let body = json!({"property": self.id, "stage": stage, "signature": f.signature, "detail": f.detail, "case": case});
        let text = serde_json::to_string_pretty(&body).unwrap();
        let dir = format!("{}/replays/{}", self.verif_dir, self.id);
        let _ = std::fs::create_dir_all(&dir);
        let path = format!("{}/found-{}-{:016x}.json", dir, stage, fnv(&text));
        let _ = std::fs::write(&path, text);
        self.violations.push((stage.to_string(), f, path));
    }

    fn run_one<C: CaseT>(&mut self, stage: &str, case: &C, check: &(dyn Fn(&C, &mut Ctx) -> Result<(), Failure> + Sync)) -> Result<(), Failure> {
        let id = self.id;
        let mut ctx = Ctx { stats: &mut self.stats, known: &self.known, id, counting: true, strict: self.strict, by_construction: false };
        ctx.stats.evaluations += 1;
        let r = guarded(|| check(case, &mut ctx));
        match r {
            Ok(r) => r,
            Err(msg) => {
                if panic_is_harness(&msg) {
                    eprintln!("INCONCLUSIVE harness panic: {}", msg);
                    std::process::exit(2);
                }
                Err(Failure { signature: format!("{}:{}:panic", id, stage), detail: msg })
            }
        }
    }

    /// Replay-mode handling; returns true if the stage must not run normally.
    fn handle_replay<C: CaseT>(&mut self, stage: &str, check: &(dyn Fn(&C, &mut Ctx) -> Result<(), Failure> + Sync)) -> bool {
        let (st, cv) = match &self.mode {
            Mode::Run => return false,
            Mode::Replay { stage: st, case } => (st.clone(), case.clone()),
        };
        if st != stage {
            return true;
        }
        let case: C = match serde_json::from_value(cv) {
            Ok(c) => c,
            Err(e) => {
                eprintln!("INCONCLUSIVE cannot decode replay case for stage {}: {}", stage, e);
                std::process::exit(2);
            }
        };
        self.replayed += 1;
        if let Err(f) = self.run_one(stage, &case, check) {
            let path = match &self.mode {
                Mode::Replay { .. } => std::env::var("TACHECK_REPLAY_PATH").unwrap_or_default(),
                _ => String::new(),
            };
            self.violations.push((stage.to_string(), f, path));
        }
        true
    }

    /// Random stage: `cases` proptest cases split over WORKERS threads.
    pub fn random<C: CaseT>(
        &mut self,
        stage: &str,
        cases: u32,
        mk: &(dyn Fn() -> BoxedStrategy<C> + Sync),
        check: &(dyn Fn(&C, &mut Ctx) -> Result<(), Failure> + Sync),
    ) {
        if self.handle_replay(stage, check) {
            return;
        }
        if !self.violations.is_empty() {
            return;
        }
        self.exhaustive_all = false;
        let t0 = Instant::now();
        let stop = AtomicBool::new(false);
        let results: Mutex<Vec<(usize, Stats, Option<(C, Failure)>)>> = Mutex::new(vec![]);
        let per = (cases as usize + WORKERS - 1) / WORKERS;
        let known = &self.known;
        let id = self.id;
        let strict = self.strict;
        let max_shrink = self.tier.pick(1500u32, 6000u32);
        let max_shrink_ms = self.tier.pick(30_000u32, 120_000u32);
        std::thread::scope(|sc| {
            for w in 0..WORKERS {
                let seed = self.stage_seed(stage, w);
                let stop = &stop;
                let results = &results;
                sc.spawn(move || {
                    let strategy = mk();
                    let mut cfg = Config::default();
                    cfg.cases = per as u32;
                    cfg.failure_persistence = None;
                    cfg.max_shrink_iters = max_shrink;
                    // minimisation only: a failing case stays a failing case however far it was shrunk. Without the
                    // time box the flat-mapped strategies of long op sequences can shrink for tens of minutes.
                    cfg.max_shrink_time = max_shrink_ms;
                    cfg.rng_algorithm = RngAlgorithm::ChaCha;
                    cfg.rng_seed = RngSeed::Fixed(u64::from_le_bytes(seed[0..8].try_into().unwrap()));
                    cfg.verbose = 0;
                    let mut runner = TestRunner::new(cfg);
                    let stats = RefCell::new(Stats::default());
                    let failed = std::cell::Cell::new(false);
                    let res = runner.run(&strategy, |case: C| {
                        if stop.load(Ordering::Relaxed) && !failed.get() {
                            return Ok(());
                        }
                        let counting = !failed.get();
                        let mut st = stats.borrow_mut();
                        if counting {
                            st.evaluations += 1;
                            if st.samples.len() < 2 && st.evaluations % 7 == 3 {
                                if let Ok(v) = serde_json::to_value(&case) {
                                    st.samples.push(json!({"stage": stage, "case": truncate_value(&v, 0)}));
                                }
                            }
                        }
                        let mut ctx = Ctx { stats: &mut st, known, id, counting, strict, by_construction: false };
                        let r = guarded(|| check(&case, &mut ctx));
                        match r {
                            Ok(Ok(())) => Ok(()),
                            Ok(Err(f)) => {
                                failed.set(true);
                                stop.store(true, Ordering::Relaxed);
                                Err(TestCaseError::fail(f.signature))
                            }
                            Err(msg) => {
                                if panic_is_harness(&msg) {
                                    eprintln!("INCONCLUSIVE harness panic: {}", msg);
                                    std::process::exit(2);
                                }
                                failed.set(true);
                                stop.store(true, Ordering::Relaxed);
                                Err(TestCaseError::fail(format!("panic: {}", msg)))
                            }
                        }
                    });
                    let fail = match res {
                        Ok(()) => None,
                        Err(TestError::Fail(_, case)) => {
                            // re-run the shrunk case to obtain its own signature/detail
                            let mut tmp = Stats::default();
                            let mut ctx = Ctx { stats: &mut tmp, known, id, counting: false, strict, by_construction: false };
                            let f = match guarded(|| check(&case, &mut ctx)) {
                                Ok(Err(f)) => f,
                                Err(msg) => Failure { signature: format!("{}:{}:panic", id, stage), detail: msg },
                                Ok(Ok(())) => Failure { signature: format!("{}:{}:unstable", id, stage), detail: "shrunk case did not fail on re-run".into() },
                            };
                            Some((case, f))
                        }
                        Err(TestError::Abort(r)) => {
                            eprintln!("INCONCLUSIVE proptest aborted in stage {}: {}", stage, r);
                            std::process::exit(2);
                        }
                    };
                    results.lock().unwrap().push((w, stats.into_inner(), fail));
                });
            }
        });
        let mut rs = results.into_inner().unwrap();
        rs.sort_by_key(|r| r.0);
        let mut first_fail: Option<(C, Failure)> = None;
        let mut evals = 0;
        for (_, st, fail) in rs {
            evals += st.evaluations;
            self.stats.merge(st);
            if first_fail.is_none() {
                first_fail = fail;
            }
        }
        self.stage_info.push(json!({"stage": stage, "generator": "proptest", "cases": evals, "wall_s": t0.elapsed().as_secs_f64()}));
        if let Some((case, f)) = first_fail {
            self.record_violation(stage, &case, f);
        }
    }

    /// Exhaustive stage: every index in 0..count is decoded into a case and checked.
    pub fn exhaustive<C: CaseT>(
        &mut self,
        stage: &str,
        count: u64,
        decode: &(dyn Fn(u64) -> C + Sync),
        check: &(dyn Fn(&C, &mut Ctx) -> Result<(), Failure> + Sync),
    ) {
        if self.handle_replay(stage, check) {
            return;
        }
        if !self.violations.is_empty() {
            return;
        }
        self.any_exhaustive = true;
        let t0 = Instant::now();
        let next = AtomicU64::new(0);
        let stop = AtomicBool::new(false);
        const CHUNK: u64 = 256;
        let results: Mutex<Vec<(Stats, Option<(u64, C, Failure)>)>> = Mutex::new(vec![]);
        let known = &self.known;
        let id = self.id;
        let strict = self.strict;
        std::thread::scope(|sc| {
            for _ in 0..WORKERS {
                let next = &next;
                let stop = &stop;
                let results = &results;
                sc.spawn(move || {
                    let mut st = Stats::default();
                    let mut fail: Option<(u64, C, Failure)> = None;
                    'outer: loop {
                        let lo = next.fetch_add(CHUNK, Ordering::Relaxed);
                        if lo >= count || stop.load(Ordering::Relaxed) {
                            break;
                        }
                        let hi = (lo + CHUNK).min(count);
                        for i in lo..hi {
                            let case = decode(i);
                            st.evaluations += 1;
                            if st.samples.len() < 1 && i % 1009 == 17 {
                                if let Ok(v) = serde_json::to_value(&case) {
                                    st.samples.push(json!({"stage": stage, "case": truncate_value(&v, 0)}));
                                }
                            }
                            let mut ctx = Ctx { stats: &mut st, known, id, counting: true, strict, by_construction: true };
                            let r = guarded(|| check(&case, &mut ctx));
                            let f = match r {
                                Ok(Ok(())) => continue,
                                Ok(Err(f)) => f,
                                Err(msg) => {
                                    if panic_is_harness(&msg) {
                                        eprintln!("INCONCLUSIVE harness panic: {}", msg);
                                        std::process::exit(2);
                                    }
                                    Failure { signature: format!("{}:{}:panic", id, stage), detail: msg }
                                }
                            };
                            fail = Some((i, case, f));
                            stop.store(true, Ordering::Relaxed);
                            break 'outer;
                        }
                    }
                    results.lock().unwrap().push((st, fail));
                });
            }
        });
        let rs = results.into_inner().unwrap();
        let mut first: Option<(u64, C, Failure)> = None;
        let mut evals = 0;
        for (st, fail) in rs {
            evals += st.evaluations;
            self.stats.merge(st);
            if let Some(f) = fail {
                if first.as_ref().map(|x| f.0 < x.0).unwrap_or(true) {
                    first = Some(f);
                }
            }
        }
        let complete = first.is_none() && evals == count;
        if !complete {
            self.exhaustive_all = false;
        }
        self.stage_info.push(json!({"stage": stage, "generator": "exhaustive", "space": count, "cases": evals, "complete": complete, "wall_s": t0.elapsed().as_secs_f64()}));
        if let Some((_, case, f)) = first {
            self.record_violation(stage, &case, f);
        }
    }

    /// Coverage-guided stage: run a prebuilt libFuzzer target (built by ./check from the current
    /// tree) in `procs` parallel processes for `total_runs` executions from the committed seed corpus.
    /// A crash artifact is decoded with the shared byte decoder and re-run under the framework, which
    /// writes the usual JSON replay; `as_stage` names the proptest stage that accepts that Case type.
    pub fn fuzz_stage<C: CaseT>(
        &mut self,
        target: &str,
        only: Option<u8>,
        total_runs: u64,
        as_stage: &str,
        decode: &(dyn Fn(&[u8]) -> C + Sync),
        check: &(dyn Fn(&C, &mut Ctx) -> Result<(), Failure> + Sync),
    ) {
        if self.is_replay() || !self.violations.is_empty() {
            return;
        }
        self.exhaustive_all = false;
        let t0 = Instant::now();
        let bin = format!("{}/harness/fuzz/target/x86_64-unknown-linux-gnu/release/{}", self.verif_dir, target);
        if !std::path::Path::new(&bin).exists() {
            eprintln!("INCONCLUSIVE fuzz target {} is not built (run ./check, which builds it for the thorough tier)", bin);
            std::process::exit(2);
        }
        let procs = 8u64;
        let base = format!("{}/harness/fuzz/run-{}-{}", self.verif_dir, std::process::id(), target);
        let _ = std::fs::remove_dir_all(&base);
        let seed_dir = format!("{}/corpus/{}", self.verif_dir, target);
        let mut children = vec![];
        for i in 0..procs {
            let cdir = format!("{}/c{}", base, i);
            let adir = format!("{}/a{}/", base, i);
            std::fs::create_dir_all(&cdir).ok();
            std::fs::create_dir_all(&adir).ok();
            if let Ok(rd) = std::fs::read_dir(&seed_dir) {
                for e in rd.flatten() {
                    let _ = std::fs::copy(e.path(), format!("{}/{}", cdir, e.file_name().to_string_lossy()));
                }
            }
            let mut cmd = std::process::Command::new(&bin);
            cmd.arg(&cdir)
                .arg(format!("-runs={}", total_runs / procs))
                .arg(format!("-seed={}", (self.seed.wrapping_mul(procs + 1).wrapping_add(i) % 0x7fff_fff0) + 1))
                .arg("-max_len=4096")
                .arg("-len_control=0")
                .arg("-print_final_stats=1")
                // ru_maxrss is inherited across exec on Linux: the parent's peak would trip the default limit
                .arg("-rss_limit_mb=0")
                .arg("-malloc_limit_mb=2048")
                .arg(format!("-artifact_prefix={}", adir))
                .stdout(std::process::Stdio::null())
                .stderr(std::process::Stdio::piped());
            if let Some(o) = only {
                cmd.env("TACHECK_FUZZ_ONLY", o.to_string());
            }
            match cmd.spawn() {
                Ok(ch) => children.push((i, ch)),
                Err(e) => {
                    eprintln!("INCONCLUSIVE cannot start fuzz target: {}", e);
                    std::process::exit(2);
                }
            }
        }
        let mut executed = 0u64;
        let mut new_units = 0u64;
        let mut crashed = false;
        for (_, ch) in children {
            let out = match ch.wait_with_output() {
                Ok(o) => o,
                Err(e) => {
                    eprintln!("INCONCLUSIVE fuzz process: {}", e);
                    std::process::exit(2);
                }
            };
            let err = String::from_utf8_lossy(&out.stderr);
            for line in err.lines() {
                if let Some(v) = line.strip_prefix("stat::number_of_executed_units:") {
                    executed += v.trim().parse::<u64>().unwrap_or(0);
                }
                if let Some(v) = line.strip_prefix("stat::new_units_added:") {
                    new_units += v.trim().parse::<u64>().unwrap_or(0);
                }
            }
            if !out.status.success() {
                crashed = true;
                let tail: Vec<&str> = err.lines().rev().take(25).collect();
                eprintln!("--- fuzz process ended with {:?}; last lines of its stderr:", out.status);
                for l in tail.iter().rev() {
                    eprintln!("    {}", l);
                }
            }
        }
        // artifacts → cases → framework
        let mut artifacts: Vec<std::path::PathBuf> = vec![];
        for i in 0..procs {
            if let Ok(rd) = std::fs::read_dir(format!("{}/a{}", base, i)) {
                for e in rd.flatten() {
                    artifacts.push(e.path());
                }
            }
        }
        artifacts.sort();
        let mut reproduced = false;
        for a in &artifacts {
            if let Ok(bytes) = std::fs::read(a) {
                let body = match only {
                    Some(_) if !bytes.is_empty() => &bytes[1..],
                    _ => &bytes[..],
                };
                let case = decode(body);
                if let Err(f) = self.run_one(as_stage, &case, check) {
                    let dir = format!("{}/replays/{}", self.verif_dir, self.id);
                    let _ = std::fs::create_dir_all(&dir);
                    let _ = std::fs::write(format!("{}/found-fuzz-{:016x}.bin", dir, fnv(&format!("{:?}", bytes))), &bytes);
                    self.record_violation(as_stage, &case, f);
                    reproduced = true;
                    break;
                }
            }
        }
        let _ = std::fs::remove_dir_all(&base);
        if crashed && !reproduced {
            eprintln!("INCONCLUSIVE fuzz target {} stopped abnormally ({} artifact(s)) but no artifact reproduces under the harness", target, artifacts.len());
            std::process::exit(2);
        }
        self.stats.evaluations += executed;
        self.stage_info.push(json!({"stage": format!("fuzz:{}", target), "generator": "libFuzzer (coverage-guided, 8 processes)", "cases": executed, "new_corpus_units": new_units, "wall_s": t0.elapsed().as_secs_f64()}));
    }

    /// Replay all committed/previous replay files of this property (regression tier).
    pub fn regression_files(&self) -> Vec<String> {
        let dir = format!("{}/replays/{}", self.verif_dir, self.id);
        let mut v: Vec<String> = std::fs::read_dir(&dir)
            .map(|rd| rd.filter_map(|e| e.ok()).map(|e| e.path().to_string_lossy().to_string()).filter(|p| p.ends_with(".json")).collect())
            .unwrap_or_default();
        v.sort();
        v
    }

    pub fn finish(mut self) -> i32 {
        let wall = self.start.elapsed().as_secs_f64();
        for k in self.known.iter().filter(|k| k.property == self.id && k.status == "known") {
            if let Some(n) = self.stats.known_hits.get(&k.signature) {
                // one line per listed finding and process (the regression tier and the main run both meet it)
                let first = KNOWN_PRINTED.lock().map(|mut s| s.insert(k.signature.clone())).unwrap_or(true);
                if first {
                    println!("KNOWN-FINDING: property={} {} [signature {}; met {} times so far in this run]", self.id, k.what, k.signature, n);
                }
            }
        }
        let mut code = 0;
        for (stage, f, path) in &self.violations {
            println!("VIOLATION property={} replay={}", self.id, path);
            println!("  stage={} signature={}", stage, f.signature);
            println!("  detail={}", f.detail);
            code = 1;
        }
        if self.is_replay() {
            if self.replayed == 0 {
                eprintln!("INCONCLUSIVE replay stage not found");
                return 2;
            }
            if code == 0 && std::env::var("TACHECK_QUIET_REPLAY").is_err() {
                println!("{}: replayed case holds (no violation)", self.id);
            }
            return code;
        }
        // at most 12 samples, spread over the stages (first one of every stage, then second ones, ...)
        {
            let all = std::mem::take(&mut self.stats.samples);
            let mut by_stage: Vec<(String, Vec<Value>)> = vec![];
            for s in all {
                let st = s.get("stage").and_then(|v| v.as_str()).unwrap_or("").to_string();
                match by_stage.iter_mut().find(|(k, _)| *k == st) {
                    Some((_, v)) => v.push(s),
                    None => by_stage.push((st, vec![s])),
                }
            }
            let mut round = 0;
            while self.stats.samples.len() < 12 && by_stage.iter().any(|(_, v)| v.len() > round) {
                for (_, v) in by_stage.iter() {
                    if self.stats.samples.len() < 12 {
                        if let Some(x) = v.get(round) {
                            self.stats.samples.push(x.clone());
                        }
                    }
                }
                round += 1;
            }
        }
        if self.stats.samples.is_empty() {
            self.stats.samples.push(json!("no sample captured"));
        }
        let labels: serde_json::Map<String, Value> = self.stats.labels.iter().map(|(k, v)| (k.clone(), json!(v))).collect();
        let worst: serde_json::Map<String, Value> = self.stats.worst.iter().map(|(k, v)| (k.clone(), json!(v))).collect();
        let known: serde_json::Map<String, Value> = self.stats.known_hits.iter().map(|(k, v)| (k.clone(), json!(v))).collect();
        let ev = json!({
            "property_id": self.id,
            "tier": self.tier.name(),
            "seed": self.seed,
            "level": "exploration",
            "coverage": {
                "evaluations": self.stats.evaluations,
                "distinct_nontrivial": self.stats.distinct_nontrivial(),
                "rule": self.rule,
                "samples": self.stats.samples,
                "exhaustive": self.any_exhaustive && self.exhaustive_all,
                "exhaustive_note": "true only if every stage of the run was a completed enumeration; per-stage completeness is under stages[].complete",
                "stages": self.stage_info,
                "labels": labels,
                "worst_error_over_tolerance": worst,
                "known_finding_hits_excluded": known,
            },
            "assumptions": self.assumptions,
            "wall_s": wall,
            "violations": self.violations.len(),
        });
        // tools that run the checks against a deliberately broken tree redirect the evidence
        let dir = std::env::var("TACHECK_EVIDENCE_DIR").unwrap_or_else(|_| format!("{}/evidence", self.verif_dir));
        let _ = std::fs::create_dir_all(&dir);
        let path = format!("{}/{}.json", dir, self.id);
        if let Err(e) = std::fs::write(&path, serde_json::to_string_pretty(&ev).unwrap()) {
            eprintln!("INCONCLUSIVE cannot write evidence {}: {}", path, e);
            return 2;
        }
        println!(
            "{} tier={} seed={} evaluations={} distinct_nontrivial={} violations={} wall={:.1}s",
            self.id,
            self.tier.name(),
            self.seed,
            self.stats.evaluations,
            self.stats.distinct_nontrivial(),
            self.violations.len(),
            wall
        );
        code
    }
}

/// decode index i into `depth` digits over an alphabet of size `a` (little-endian)
pub fn digits(mut i: u64, a: u64, depth: usize) -> Vec<usize> {
    let mut v = Vec::with_capacity(depth);
    for _ in 0..depth {
        v.push((i % a) as usize);
        i /= a;
    }
    v
}
pub fn ipow(a: u64, d: usize) -> u64 {
    a.pow(d as u32)
}

pub fn boxed<S: Strategy + 'static>(s: S) -> BoxedStrategy<S::Value> {
    s.boxed()
}
