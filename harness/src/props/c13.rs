//! C13 — incremental accumulators do not drift from recomputation over long streams.

use crate::adapter::{Ind, Kind, RawBar};
use crate::fw::*;
use crate::gen::period;
use crate::gen::Cfg;
use crate::props::c03::SEP;
use crate::refs::*;
use proptest::prelude::*;
use serde::{Deserialize, Serialize};

pub const KINDS: [Kind; 9] = [Kind::Sma, Kind::Wma, Kind::Sd, Kind::Bb, Kind::Mad, Kind::Cci, Kind::Mfi, Kind::Min, Kind::Max];
pub const REGIMES: [&str; 8] = ["walk", "alternate", "spikes", "plateaus", "sawtooth", "ramps", "quiet_after_spike", "periodic_spikes"];

#[derive(Clone, Debug, Serialize, Deserialize)]
pub struct Case {
    pub kind: Kind,
    pub n: usize,
    pub regime: usize,
    /// band base m: prices live in [m, 1000 m]
    pub base: X,
    pub seed: u64,
    pub len: usize,
    /// saw-tooth period
    pub saw: usize,
}

pub struct Gen {
    pub st: u64,
    pub regime: usize,
    pub base: f64,
    pub x: f64,
    pub saw: usize,
    pub i: usize,
    pub last_bar: Option<(f64, RawBar)>,
    pub quiet: f64,
}
impl Gen {
    pub fn new(seed: u64, regime: usize, base: f64, saw: usize) -> Gen {
        Gen { st: seed ^ 0x5EED, regime, base, x: base * 30.0, saw: saw.max(2), i: 0, last_bar: None, quiet: 1e-7 }
    }
    pub fn next(&mut self) -> f64 {
        let u = unit(&mut self.st);
        let (lo, hi) = (self.base, self.base * 1000.0);
        let v = match self.regime {
            0 => {
                self.x *= 1.0 + 0.1 * (u - 0.5);
                if self.x > hi {
                    self.x = hi * hi / self.x;
                }
                if self.x < lo {
                    self.x = lo * lo / self.x;
                }
                self.x.clamp(lo, hi)
            }
            1 => {
                if self.i % 2 == 0 {
                    lo * (1.0 + 0.01 * u)
                } else {
                    hi * (1.0 - 0.01 * u)
                }
            }
            2 => {
                if u > 0.99 {
                    hi * (0.5 + 0.5 * unit(&mut self.st))
                } else {
                    lo * (1.0 + 0.05 * u)
                }
            }
            3 => {
                if u > 0.97 {
                    self.x = lo * (1.0 + 999.0 * unit(&mut self.st));
                }
                self.x
            }
            4 => lo * (1.0 + (self.i % self.saw) as f64 * 0.37),
            5 => {
                // strictly monotone geometric ramps across the whole band, alternately falling and rising,
                // each `saw` steps long (the stages choose saw > period: every window element is a candidate
                // extreme at once)
                let len = self.saw.max(2);
                let k = self.i % len;
                let down = (self.i / len) % 2 == 0;
                let f = (k as f64 + 0.5 * u) / len as f64;
                let f = if down { 1.0 - f } else { f };
                lo * 1000f64.powf(f.clamp(0.0, 1.0))
            }
            7 => {
                // a flat market with one identical spike exactly every `saw` inputs (an exchange's opening print, a
                // scheduled fixing): with saw = n the spike always lands in the same ring slot and is always present
                // exactly once in the window
                if self.i % self.saw == self.saw / 2 {
                    hi * 0.5
                } else {
                    lo * 3.0
                }
            }
            _ => {
                // a quiet but not constant level (relative spread 1e-6 .. 1e-9) interrupted by rare visits to
                // the top of the band and rare changes of level
                if u > 0.995 {
                    self.x = lo * (1.0 + 9.0 * unit(&mut self.st));
                    self.quiet = 10f64.powf(-6.0 - 3.0 * unit(&mut self.st));
                }
                if u < 0.01 {
                    hi * (0.9 + 0.1 * unit(&mut self.st))
                } else {
                    (self.x * (1.0 + self.quiet * unit(&mut self.st))).clamp(lo, hi)
                }
            }
        };
        self.i += 1;
        v
    }
    pub fn bar(&mut self) -> RawBar {
        let x = self.next();
        // plateaus: an unchanged price repeats the identical bar (exact typical-price ties, only the
        // volume varies), which is what exercises the tie branch of MFI / flat windows of CCI
        if self.regime == 7 {
            // one-price bars: identical prices give bit-identical typical prices
            return RawBar { o: x, h: x, l: x, c: x, v: (1.0 + 999.0 * unit(&mut self.st)).round() };
        }
        if self.regime == 3 {
            if let Some((px, pb)) = self.last_bar {
                if px == x {
                    let mut b = pb;
                    b.v = (1.0 + 999.0 * unit(&mut self.st)).round();
                    return b;
                }
            }
        }
        let a = unit(&mut self.st);
        let b = unit(&mut self.st);
        let cpos = unit(&mut self.st);
        let vu = unit(&mut self.st);
        let (a, b, cpos, vu) = if self.regime == 4 {
            // keep the saw-tooth exactly periodic
            let j = (self.i % self.saw) as f64 / self.saw as f64;
            (0.3 + 0.4 * j, 0.6 - 0.3 * j, 0.25 + 0.5 * j, 0.5)
        } else if self.regime >= 5 {
            // the bar follows the price exactly (no bar noise on top of a ramp or of a quiet level)
            (0.5, 0.5, 0.5, vu)
        } else {
            (a, b, cpos, vu)
        };
        let h = x * (1.0 + 0.02 * a);
        let l = x * (1.0 - 0.02 * b);
        let c = l + (h - l) * cpos;
        // about one bar in 250 is untraded (volume exactly 0) although its price moved
        let vol = if vu < 0.004 && self.regime != 4 { 0.0 } else { (1.0 + 9999.0 * vu * vu).round() };
        let b = RawBar { o: x.clamp(l, h), h, l, c: c.clamp(l, h), v: vol };
        self.last_bar = Some((x, b));
        b
    }
}

pub fn check(c: &Case, ctx: &mut Ctx) -> Result<(), Failure> {
    check_as(c, ctx, "C13", true)
}

/// is step t (1-based) inside a window right after a power-of-two boundary (2^8 .. 2^25)?
/// Narrow counters and block thresholds change behaviour exactly there.
pub fn near_pow2(t: usize, n: usize) -> bool {
    if t < 254 {
        return false;
    }
    let p = (t + 2).next_power_of_two();
    let p = if p > t + 2 { p / 2 } else { p };
    // p = largest power of two <= t+2
    p >= 256 && t + 2 >= p && t <= p + n + 3
}

/// shared long-run check: `id` prefixes the signatures (C13, or C01/C03 for their ultra-long stages),
/// `pow2` adds dense sampling right after every power-of-two step count
pub fn check_as(c: &Case, ctx: &mut Ctx, id: &str, pow2: bool) -> Result<(), Failure> {
    check_mode(c, ctx, id, pow2, false)
}

/// `sign_only`: check only the every-step invariant (variance / dispersion never negative or NaN)
pub fn check_mode(c: &Case, ctx: &mut Ctx, id: &str, pow2: bool, sign_only: bool) -> Result<(), Failure> {
    check_full(c, ctx, id, pow2, sign_only, false)
}

/// `via_default`: the instance comes from Default::default() (c.n must be the documented default period)
pub fn check_full(c: &Case, ctx: &mut Ctx, id: &str, pow2: bool, sign_only: bool, via_default: bool) -> Result<(), Failure> {
    let k = c.kind;
    let name = k.name();
    let n = c.n;
    let cfg = Cfg { kind: k, p: vec![n], m: X(2.0) };
    let mut ind = if via_default { Ind::default_of(k) } else { Ind::build(k, &cfg.params()).map_err(|_| Failure { signature: "C13:harness".into(), detail: "HARNESS build".into() })? };
    let mut gen = Gen::new(c.seed, c.regime, c.base.0, c.saw);
    let mut pick = c.seed.wrapping_mul(0x9E3779B97F4A7C15) | 1;
    let bars_kind = matches!(k, Kind::Cci | Kind::Mfi);
    let cap = n + 1;
    let mut ring: Vec<RawBar> = Vec::with_capacity(cap); // last n+1 bars, oldest first (rotated lazily)
    let mut head = 0usize;
    let mut big = 0.0f64;
    let mut mfi_big = 0.0f64;
    let mut prev_bar: Option<RawBar> = None;
    let sample_p = 300.0 / (c.len.max(1) as f64);
    let (mut checked, mut ill) = (0u64, 0u64);
    let mut win: Vec<RawBar> = Vec::with_capacity(cap);
    for i in 0..c.len {
        let bar = if bars_kind { gen.bar() } else { RawBar::flat(gen.next(), 0.0) };
        crate::tele::step(&mut ind, &cfg);
        let out = if bars_kind { ind.next_bar(&bar) } else { ind.next_scalar(bar.c) };
        let t = i + 1;
        if ring.len() < cap {
            ring.push(bar);
        } else {
            ring[head] = bar;
            head = (head + 1) % cap;
        }
        let tpv = bar.tp();
        big = big.max(if bars_kind { tpv.abs() } else { bar.c.abs() });
        if k == Kind::Mfi && t >= 2 && prev_bar.map(|pb| crate::refs::may_flow(&pb, &bar)).unwrap_or(true) {
            mfi_big = mfi_big.max((tpv * bar.v).abs());
        }
        prev_bar = Some(bar);
        // cheap invariant at every step: variance never negative or NaN
        if matches!(k, Kind::Sd | Kind::Bb) {
            let sdv = if k == Kind::Sd { out.x() } else { (out.v[1] - out.v[0]) / 2.0 };
            if !(sdv >= 0.0 || (k == Kind::Bb && sdv > -1e-3 * big)) || out.vals().iter().any(|v| v.is_nan()) {
                ctx.fail(format!("{}:{}:variance_negative_or_nan", id, name), format!("{}({}) regime {} step {}: output {:?}", name, n, REGIMES[c.regime], i, out.vals()))?;
            }
        }
        let sampled = t <= 3 * n + 50 || t + 2 >= c.len || unit(&mut pick) < sample_p || (pow2 && near_pow2(t, n));
        if k == Kind::Mad && !(out.x() >= 0.0) {
            ctx.fail(format!("{}:{}:variance_negative_or_nan", id, name), format!("{}({}) regime {} step {}: output {:?}", name, n, REGIMES[c.regime], i, out.vals()))?;
        }
        if !sampled || sign_only {
            if sign_only && sampled {
                checked += 1;
            }
            continue;
        }
        // materialise the window, oldest first
        win.clear();
        for j in 0..ring.len() {
            win.push(ring[(head + j) % ring.len()]);
        }
        let wl = t.min(n);
        let wbars = &win[win.len() - wl..];
        let w: Vec<f64> = wbars.iter().map(|b| b.c).collect();
        let tol = tau(t) * big;
        let mut fail: Option<String> = None;
        let mut ratio = 0.0f64;
        match k {
            Kind::Sma | Kind::Wma | Kind::Mad => {
                let r = match k {
                    Kind::Sma => mean(&w),
                    Kind::Wma => wma(&w),
                    _ => mad(&w),
                };
                let e = err(out.x(), r);
                ratio = e / tol;
                if !(e <= tol) {
                    fail = Some(format!("got {:e}, recomputation {:e}, |err| {:e} > tau(t)*M = {:e}", out.x(), r.to_f64(), e, tol));
                }
                checked += 1;
            }
            Kind::Min | Kind::Max => {
                let r = if k == Kind::Min { wmin(&w) } else { wmax(&w) };
                if out.x() != r {
                    fail = Some(format!("got {:e}, window extreme {:e}", out.x(), r));
                }
                checked += 1;
            }
            Kind::Sd => {
                let v = var_pop(&w);
                let tolv = tau(t) * big * big;
                let e = err(out.x() * out.x(), v);
                ratio = e / tolv;
                if !(e <= tolv) {
                    fail = Some(format!("sd {:e} (sd^2 {:e}) vs variance {:e}, |err| {:e} > tau(t)*M^2 = {:e}", out.x(), out.x() * out.x(), v.to_f64(), e, tolv));
                }
                checked += 1;
            }
            Kind::Bb => {
                let r = mean(&w);
                let e = err(out.v[0], r);
                ratio = e / tol;
                if !(e <= tol) {
                    fail = Some(format!("average {:e} vs window mean {:e}, |err| {:e} > {:e}", out.v[0], r.to_f64(), e, tol));
                }
                let v = var_pop(&w);
                let tolv = tau(t) * big * big;
                let (slo, shi) = sd_interval(v, tolv);
                let slack = 4.0 * ulp(out.v[1].abs().max(out.v[2].abs()));
                for hw in [out.v[1] - out.v[0], out.v[0] - out.v[2]] {
                    if !(hw >= 2.0 * slo - slack && hw <= 2.0 * shi + slack) {
                        fail = Some(format!("half-width {:e} outside 2*[{:e},{:e}]", hw, slo, shi));
                    }
                }
                checked += 1;
            }
            Kind::Cci => match cci_ref(wbars, n, big) {
                Some(r) if r.c <= 1e6 => {
                    let tl = tau(t) * r.c.max(1.0) / 0.015;
                    let e = err(out.x(), r.val);
                    ratio = e / tl;
                    if !(e <= tl) {
                        fail = Some(format!("got {:e}, recomputation {:e}, |err| {:e} > tol {:e} (c = {:e})", out.x(), r.val.to_f64(), e, tl, r.c));
                    }
                    checked += 1;
                }
                _ => ill += 1,
            },
            Kind::Mfi => {
                if t >= 2 {
                    let m = mfi_ref(&win, n, SEP);
                    let den = m.pmf.add(m.nmf);
                    let cc = mfi_big.max(m.max_flow_in_window) / den.to_f64();
                    if den.hi > 0.0 && !m.tainted && cc <= 1e6 {
                        let r = m.pmf.div(den).mul_f(100.0);
                        let tl = tau(t) * cc.max(1.0) * 100.0;
                        let e = err(out.x(), r);
                        ratio = e / tl;
                        if !(e <= tl) {
                            fail = Some(format!("got {:e}, recomputation {:e}, |err| {:e} > tol {:e} (c = {:e})", out.x(), r.to_f64(), e, tl, cc));
                        }
                        checked += 1;
                    } else {
                        ill += 1;
                    }
                }
            }
            _ => unreachable!("HARNESS: kind not in C13"),
        }
        ctx.worst(&format!("{}:{}", name, REGIMES[c.regime]), ratio);
        if let Some(what) = fail {
            ctx.fail(
                format!("{}:{}:{}:drift", id, name, REGIMES[c.regime]),
                format!("{}({}) regime {} (band base {:e}, saw period {}) after {} inputs: {}", name, n, REGIMES[c.regime], c.base.0, c.saw, t, what),
            )?;
            return Ok(());
        }
    }
    ctx.label(&format!("kind:{}", name));
    ctx.label(&format!("regime:{}", REGIMES[c.regime]));
    ctx.label_n("sampled_steps_checked", checked);
    ctx.label_n("sampled_steps_skipped_illconditioned", ill);
    ctx.label_n("stream_steps", c.len as u64);
    if checked >= 100 {
        let mut fp = Fp::new(id);
        fp.u(k.idx() as u64);
        fp.u(n as u64);
        fp.u(c.regime as u64);
        fp.f(c.base.0);
        fp.u(c.seed);
        fp.u(c.len as u64);
        fp.u(c.saw as u64);
        ctx.nontrivial(fp);
        ctx.label("nontrivial");
    }
    Ok(())
}

const PERIODS: [usize; 8] = [1, 2, 3, 5, 14, 50, 200, 1000];

fn strategy(maxlen: usize) -> BoxedStrategy<Case> {
    ((0..KINDS.len()), period(1000), 0..8usize, -3.0f64..6.0, any::<u64>(), (maxlen / 4)..=maxlen, 0.0f64..1.0)
        .prop_map(|(ki, n, regime, e, seed, len, su)| {
            let kind = KINDS[ki];
            let heavy = matches!(kind, Kind::Mad | Kind::Cci) && n > 64;
            let len = if heavy { len / (n / 32) } else { len };
            Case { kind, n, regime, base: X(10f64.powf(e)), seed, len: len.max(4 * n + 60), saw: 2 + (su * (n + 2) as f64) as usize }
        })
        .boxed()
}

pub fn run(g: &mut Global) {
    g.rule = "grid: 9 indicators (SMA, WMA, SD, BB, MAD, CCI, MFI, MIN, MAX) x periods {1,2,3,5,14,50,200,1000} x 5 regimes (random walk, alternating extremes of [m,1000m], spikes, plateaus, saw-tooth; two more in the ramps_and_quiet stage and the random stage: strictly monotone ramps across the band longer than the window, and a quiet non-constant level with rare visits to the top of the band; periodic_spikes: a flat market with an identical spike every n-1, n, n+1, 2n inputs) x band bases m, each one uninterrupted stream of 2e5 (quick) / 2e6 (thorough) inputs expanded from (VERIF_SEED, index); random: proptest (kind, period from the mixture to 1000, regime, m log-uniform in [1e-3,1e6], seed, length, saw period in 2..n+3). Oracle: at t <= 3n+50, at about 300 pseudo-randomly chosen later steps and at the end, double-double recomputation over the harness's own window vs the output within tau(t)*M (variance scale for SD/BB; tau*c*scale for CCI/MFI where c <= 1e6, MFI under the ambiguity rule); MIN/MAX exact; variance never negative or NaN at any step. A case is non-trivial if >= 100 sampled steps were well-conditioned; distinct by (kind, period, regime, base, seed, length, saw period).".into();
    g.assumptions = vec![
        "the stream elements are expanded from the generated seed with splitmix64 inside the check (a pure function of the case, so replay is exact; shrinking acts on length/period/regime, not on elements)".into(),
        "O(n)-per-step indicators (MAD, CCI) with n = 1000 run shorter streams in the quick tier".into(),
    ];
    let len = g.tier.pick(200_000usize, 2_000_000usize);
    let bases: Vec<f64> = g.tier.pick(vec![1e-3, 37.0], vec![1e-3, 0.8, 37.0, 1e6]);
    let nb = bases.len() as u64;
    let seed = g.seed;
    let quick = g.tier == Tier::Quick;
    g.exhaustive(
        "grid",
        9 * 8 * 5 * nb,
        &move |i| {
            let base = bases[(i % nb) as usize];
            let r = i / nb;
            let regime = (r % 5) as usize;
            let r = r / 5;
            let n = PERIODS[(r % 8) as usize];
            let kind = KINDS[(r / 8) as usize];
            let heavy = matches!(kind, Kind::Mad | Kind::Cci);
            let l = if heavy && n >= 200 { if quick { len / (n / 25) } else { len / (n / 100) } } else { len };
            let mut s = seed ^ i.wrapping_mul(0xD1B54A32D192ED03);
            let sd = splitmix(&mut s);
            Case { kind, n, regime, base: X(base), seed: sd, len: l.max(4 * n + 60), saw: 2 + (sd % (n as u64 + 2)) as usize }
        },
        &check,
    );
    // periodic stage: cheap O(1)-per-step accumulators on saw-tooths of every period 2..n+3 and
    // many band bases (a biased rounding error per period is what makes a running sum drift)
    const PK: [Kind; 5] = [Kind::Sma, Kind::Wma, Kind::Sd, Kind::Bb, Kind::Mfi];
    const PN: [usize; 6] = [2, 3, 4, 5, 8, 14];
    let nbase = g.tier.pick(12u64, 40u64);
    let plen = g.tier.pick(200_000usize, 1_000_000usize);
    g.exhaustive(
        "periodic",
        5 * 6 * 16 * nbase,
        &move |i| {
            let bi = i % nbase;
            let r = i / nbase;
            let sawi = (r % 16) as usize;
            let r = r / 16;
            let n = PN[(r % 6) as usize];
            let kind = PK[(r / 6) as usize];
            let mut s = seed ^ (bi + 1).wrapping_mul(0xA0761D6478BD642F);
            let u = unit(&mut s);
            let base = 10f64.powf(-3.0 + 9.0 * u);
            Case { kind, n, regime: 4, base: X(base), seed: splitmix(&mut s), len: plen, saw: 2 + sawi % (n + 2) }
        },
        &check,
    );
    // a flat market with an identical spike every n-1, n, n+1 or 2n inputs (regime 7): a shortcut for "nothing
    // changed" or a run-length test that looks at the wrong slot is wrong at every step of such a stream
    const SK9: [Kind; 9] = [Kind::Sma, Kind::Wma, Kind::Sd, Kind::Bb, Kind::Mad, Kind::Cci, Kind::Mfi, Kind::Min, Kind::Max];
    const SN: [usize; 8] = [2, 3, 4, 5, 7, 15, 17, 20];
    g.exhaustive(
        "periodic_spikes",
        9 * 8 * 4 * 2,
        &move |i| {
            let base = [0.37f64, 85.18][(i % 2) as usize];
            let r = i / 2;
            let which = (r % 4) as usize;
            let r = r / 4;
            let n = SN[(r % 8) as usize];
            let kind = SK9[(r / 8) as usize];
            let saw = [n.saturating_sub(1).max(2), n.max(2), n + 1, 2 * n][which];
            let mut s = seed ^ (i + 77).wrapping_mul(0xA0761D6478BD642F);
            Case { kind, n, regime: 7, base: X(base), seed: splitmix(&mut s), len: 30_000, saw }
        },
        &check,
    );
    // ramps longer than the window (all of it candidates for the extreme) and quiet-after-spike windows, at
    // power-of-two periods and their neighbours
    const RN: [usize; 12] = [14, 31, 32, 33, 64, 65, 128, 200, 256, 257, 512, 1000];
    g.exhaustive(
        "ramps_and_quiet",
        9 * 12 * 2 * 3,
        &move |i| {
            let rep = i % 3;
            let r = i / 3;
            let regime = 5 + (r % 2) as usize;
            let r = r / 2;
            let n = RN[(r % 12) as usize];
            let kind = KINDS[(r / 12) as usize];
            let heavy = matches!(kind, Kind::Mad | Kind::Cci) && n > 64;
            let mut s = seed ^ (i + 5).wrapping_mul(0xE7037ED1A0B428DB);
            let sd = splitmix(&mut s);
            let base = [1e-3, 1.0, 1e3][rep as usize];
            let l = if heavy { 6 * n + 2000 } else { 30 * n + 20_000 };
            Case { kind, n, regime, base: X(base), seed: sd, len: l, saw: n + 1 + (sd % (2 * n as u64 + 1)) as usize }
        },
        &check,
    );
    // Default-built instances (documented default periods) on long streams
    g.exhaustive(
        "defaults",
        9 * 5,
        &move |i| {
            let kind = KINDS[(i % 9) as usize];
            let regime = (i / 9) as usize % 5;
            let mut s = seed ^ (i + 77).wrapping_mul(0xE7037ED1A0B428DB);
            let n = kind.default_params().p[0];
            Case { kind, n, regime, base: X(1.0), seed: splitmix(&mut s), len: 30_000, saw: 2 + (i as usize % (n + 2)) }
        },
        &|c: &Case, ctx: &mut Ctx| check_full(c, ctx, "C13", true, false, true),
    );
    let ml = g.tier.pick(60_000usize, 400_000usize);
    g.random("random", g.tier.pick(480, 4000), &move || strategy(ml), &check);
    // identity events (tele.rs): at one or two steps the instance is replaced by its clone, by a used instance
    // (same or longer periods) that clone_from()s it, or by its serde round trip; nothing may change
    g.random("events", g.tier.pick(160, 1200), &move || crate::tele::wrap(strategy(ml / 2)), &|t: &crate::tele::TCase<Case>, ctx: &mut Ctx| crate::tele::check_wrapped(t, ctx, t.case.len, t.case.n, check));
}

#[cfg(test)]
mod tests {
    use super::near_pow2;
    #[test]
    fn dense_sampling_windows_after_powers_of_two() {
        for k in 8..=24u32 {
            let p = 1usize << k;
            for n in [1usize, 5, 14] {
                assert!(near_pow2(p - 2, n) && near_pow2(p, n) && near_pow2(p + n + 3, n), "k={} n={}", k, n);
                assert!(!near_pow2(p + n + 4, n) || (p + n + 6 >= 2 * p), "k={} n={}", k, n);
                assert!(!near_pow2(p - 3, n) || p - 3 <= p / 2 + n + 3);
            }
        }
        assert!(!near_pow2(100, 5));
    }
}
