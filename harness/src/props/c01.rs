//! C01 — sliding-window statistics equal the textbook value of exactly the last n inputs.

use crate::adapter::{Ind, Kind};
use crate::fw::*;
use crate::gen::*;
use crate::refs::*;
use proptest::collection::vec;
use proptest::prelude::*;
use serde::{Deserialize, Serialize};

pub const KINDS: [Kind; 7] = [Kind::Sma, Kind::Wma, Kind::Sd, Kind::Mad, Kind::Min, Kind::Max, Kind::Bb];

#[derive(Clone, Debug, Serialize, Deserialize)]
pub struct Case {
    pub cfg: Cfg,
    pub xs: Vec<X>,
    /// reset() is called before feeding xs[i] for each i listed
    pub resets: Vec<usize>,
    /// 0 or 1: compare at every step; k > 1: compare while t <= n+2, at every k-th step and at the end
    /// (used by the fuzz decoder for large periods, where the O(n) reference per step dominates)
    #[serde(default)]
    pub stride: usize,
}

/// a case whose indicator is built with Default::default(); its cfg holds the documented default parameters
#[derive(Clone, Debug, Serialize, Deserialize)]
pub struct DCase {
    pub case: Case,
}

pub fn check(c: &Case, ctx: &mut Ctx) -> Result<(), Failure> {
    check_with(c, ctx, false)
}

pub fn check_with(c: &Case, ctx: &mut Ctx, via_default: bool) -> Result<(), Failure> {
    let k = c.cfg.kind;
    let n = c.cfg.n();
    let m = c.cfg.m.0;
    let mut ind = if via_default { Ind::default_of(k) } else { Ind::build(k, &c.cfg.params()).map_err(|_| Failure { signature: "C01:harness:build".into(), detail: "HARNESS build failed".into() })? };
    // a Default-built instance is judged by the period it reports (which C11 separately ties to the documented default)
    let n = if via_default { ind.period().unwrap_or(n) } else { n };
    let mut hist: Vec<f64> = Vec::with_capacity(c.xs.len());
    let mut big = 0.0f64;
    let mut fp = Fp::new("C01");
    c.cfg.fp(&mut fp);
    let mut nonconst = false;
    let mut rescan = false;
    let mut reached = false;
    let name = k.name();
    for (i, x) in c.xs.iter().enumerate() {
        let x = x.0;
        if c.resets.contains(&i) {
            ind.reset();
            hist.clear();
            big = 0.0;
            fp.u(0xDEAD);
            ctx.label("reset_in_history");
        }
        crate::tele::step(&mut ind, &c.cfg);
        // mixed use of both paths on one instance (tele.rs): on some steps the value arrives as a one-price bar
        let out = if crate::tele::scalar_here() { ind.next_bar(&crate::adapter::RawBar::flat(x, 1.0)) } else { ind.next_scalar(x) };
        fp.f(x);
        hist.push(x);
        let t = hist.len();
        big = big.max(x.abs());
        let w = &hist[t - t.min(n)..];
        if t >= 2 && hist[t - 1] != hist[t - 2] {
            nonconst = true;
        }
        if t >= n + 2 {
            reached = true;
        }
        // windows beyond 20 000 slots: the O(t) reference is strided during warm-up as well, except at its very
        // beginning, around the 2^16-th input and where the window fills
        let dense = t <= n + 2 && (n <= 20_000 || t + 2 >= n || (65_530..=65_540).contains(&t) || t <= 4);
        if c.stride > 1 && !dense && i % c.stride != 0 && i + 1 != c.xs.len() {
            continue;
        }
        let tol = tau(t) * big + tol_floor(w.len());
        match k {
            Kind::Sma | Kind::Wma | Kind::Mad => {
                let r = match k {
                    Kind::Sma => mean(w),
                    Kind::Wma => wma(w),
                    _ => mad(w),
                };
                let e = err(out.x(), r);
                ctx.worst(name, if tol > 0.0 { e / tol } else if e == 0.0 { 0.0 } else { f64::INFINITY });
                if !(e <= tol) {
                    ctx.fail(
                        format!("C01:{}:mismatch", name),
                        format!("{} step {} (t={} since reset): got {:e}, reference {:e}, |err| {:e} > tol {:e}; window {:?}", c.cfg.tag(), i, t, out.x(), r.to_f64(), e, tol, w),
                    )?;
                }
            }
            Kind::Min | Kind::Max => {
                let r = if k == Kind::Min { wmin(w) } else { wmax(w) };
                if t > n {
                    let ev = hist[t - n - 1];
                    let prev = &hist[t - n - 1..t - 1];
                    let pe = if k == Kind::Min { wmin(prev) } else { wmax(prev) };
                    if ev == pe {
                        rescan = true;
                    }
                }
                if !(out.x() == r) {
                    ctx.fail(
                        format!("C01:{}:mismatch", name),
                        format!("{} step {} (t={}): got {:e}, window extreme {:e}; window {:?}", c.cfg.tag(), i, t, out.x(), r, w),
                    )?;
                }
            }
            Kind::Sd => {
                let v = var_pop(w);
                let got = out.x();
                let tolv = tau(t) * big * big + tol_floor(w.len());
                let e = err(got * got, v);
                ctx.worst(name, if tolv > 0.0 { e / tolv } else if e == 0.0 { 0.0 } else { f64::INFINITY });
                if !(e <= tolv) || !(got >= 0.0) {
                    ctx.fail(
                        format!("C01:{}:mismatch", name),
                        format!("{} step {} (t={}): sd {:e} (sd² {:e}) vs population variance {:e}, |err| {:e} > tol {:e}; window {:?}", c.cfg.tag(), i, t, got, got * got, v.to_f64(), e, tolv, w),
                    )?;
                }
            }
            Kind::Bb => {
                let r = mean(w);
                let avg = out.v[0];
                let e = err(avg, r);
                ctx.worst("BB.average", if tol > 0.0 { e / tol } else if e == 0.0 { 0.0 } else { f64::INFINITY });
                if !(e <= tol) {
                    ctx.fail(
                        format!("C01:BB:average:mismatch"),
                        format!("{} step {} (t={}): average {:e} vs window mean {:e}, |err| {:e} > tol {:e}; window {:?}", c.cfg.tag(), i, t, avg, r.to_f64(), e, tol, w),
                    )?;
                }
                let v = var_pop(w);
                let tolv = tau(t) * big * big + tol_floor(w.len());
                let (slo, shi) = sd_interval(v, tolv);
                let level = out.v[0].abs().max(out.v[1].abs()).max(out.v[2].abs());
                let slack = 4.0 * ulp(level) + 4.0 * ulp(m.abs() * shi);
                let (a, b) = if m >= 0.0 { (m * slo, m * shi) } else { (m * shi, m * slo) };
                let up = out.v[1] - avg; // should be  m·sd
                let dn = avg - out.v[2]; // should be  m·sd
                for (which, hw) in [("upper", up), ("lower", dn)] {
                    if !(hw >= a - slack && hw <= b + slack) {
                        ctx.fail(
                            format!("C01:BB:{}:mismatch", which),
                            format!(
                                "{} step {} (t={}): half-width({}) {:e} outside multiplier·[{:e},{:e}] (population sd of window = {:e}, variance tolerance {:e}); out {:?}; window {:?}",
                                c.cfg.tag(), i, t, which, hw, slo, shi, v.sqrt().to_f64(), tolv, out.vals(), w
                            ),
                        )?;
                    }
                }
            }
            _ => unreachable!("HARNESS: kind not in C01"),
        }
    }
    ctx.label(&format!("kind:{}", name));
    ctx.label(match n {
        1 => "period:1",
        2..=5 => "period:2-5",
        6..=32 => "period:6-32",
        _ => "period:>32",
    });
    let nt = reached && nonconst && (!matches!(k, Kind::Min | Kind::Max) || rescan);
    if nt {
        ctx.nontrivial(fp);
        ctx.label("nontrivial");
    }
    Ok(())
}

const ALPHA: [f64; 6] = [-2.0, -0.5, 0.0, 0.1, 0.5, 3.0];
// configurations enumerated exhaustively: 6 kinds + BB with three multipliers
const ECFG: [(Kind, f64); 9] = [
    (Kind::Sma, 0.0),
    (Kind::Wma, 0.0),
    (Kind::Sd, 0.0),
    (Kind::Mad, 0.0),
    (Kind::Min, 0.0),
    (Kind::Max, 0.0),
    (Kind::Bb, 0.0),
    (Kind::Bb, 2.0),
    (Kind::Bb, -1.5),
];

fn strategy(tier: Tier) -> BoxedStrategy<Case> {
    let long = tier == Tier::Thorough;
    cfg_among(&KINDS, 1024, multiplier_any)
        .prop_flat_map(move |cfg| {
            let n = cfg.n();
            let maxlen = if long { (4 * n + 20).max(400) } else { (4 * n + 20).max(200) };
            (Just(cfg), multi_stream(Domain::AnySign, 1, maxlen), prop_oneof![7 => Just(vec![]), 3 => vec(0.0f64..1.0, 1..=2)])
        })
        .prop_map(|(cfg, s, rs)| {
            let len = s.vals.len();
            let mut resets: Vec<usize> = rs.iter().map(|u| ((u * len as f64) as usize).min(len.saturating_sub(1))).collect();
            resets.sort();
            resets.dedup();
            Case { cfg, xs: xs(&s.vals), resets, stride: 0 }
        })
        .boxed()
}

fn long_strategy(cap: usize) -> BoxedStrategy<Case> {
    cfg_among(&KINDS, cap, multiplier_any)
        .prop_flat_map(|cfg| (Just(cfg), multi_stream(Domain::AnySign, 10_000, 20_000)))
        .prop_map(|(cfg, s)| Case { cfg, xs: xs(&s.vals), resets: vec![], stride: 0 })
        .boxed()
}

pub fn run(g: &mut Global) {
    g.rule = "exhaustive: every value sequence over {-2,-0.5,0,0.1,0.5,3} of the stated depth for periods 1..=5 and 9 configurations (SMA, WMA, SD, MAD, MIN, MAX, BB with multipliers 0, 2, -1.5); random: proptest cases (kind, period from the mixture up to 1024, multiplier, multi-regime stream of any sign with optional resets). Every prefix of every case is compared with a double-double recomputation of the last min(t,n) inputs. Non-trivial = the stream is longer than the window (t >= n+2 since the last reset), not constant, and for MIN/MAX the evicted element was the current extreme at least once (forces the rescan); distinct by hash of (kind, parameters, value sequence, reset positions).".into();
    g.assumptions = vec![
        "reference = double-double (2^-104) from-scratch evaluation on the harness's own history copy".into(),
        "tolerance tau(t)*M as stated by the property; SD and Bollinger half-widths on the variance scale (+4 ulp of the band level for the subtraction)".into(),
        "streams are finite with |x| <= 1e12".into(),
    ];
    // instances obtained from Default::default() are the same statistics with the documented default period
    // (a Default assembled from component defaults can report one period and compute with another)
    let seedd = g.seed;
    g.exhaustive(
        "defaults",
        7 * 24,
        &move |i| {
            let kind = KINDS[(i % 7) as usize];
            let r = i / 7;
            let mut gen = crate::props::c13::Gen::new(seedd ^ (i + 1).wrapping_mul(0x9E3779B97F4A7C15), [0usize, 3, 1, 4][(r % 4) as usize], 3.7, 5);
            let sign = if (r / 4) % 2 == 0 { 1.0 } else { -1.0 };
            let resets = if (r / 8) % 3 == 1 { vec![57] } else { vec![] };
            DCase { case: Case { cfg: crate::hist::cfg_default(kind), xs: (0..160).map(|_| X(sign * gen.next())).collect(), resets, stride: 0 } }
        },
        &|d: &DCase, ctx: &mut Ctx| check_with(&d.case, ctx, true),
    );
    let depth = g.tier.pick(7usize, 9usize);
    let per_cfg = ipow(6, depth);
    let count = per_cfg * 5 * ECFG.len() as u64;
    g.exhaustive(
        "enum",
        count,
        &move |i| {
            let seq = i % per_cfg;
            let rest = i / per_cfg;
            let n = (rest % 5) as usize + 1;
            let (kind, m) = ECFG[(rest / 5) as usize];
            let d = digits(seq, 6, depth);
            Case { cfg: Cfg { kind, p: vec![n], m: X(m) }, xs: d.iter().map(|&j| X(ALPHA[j])).collect(), resets: vec![], stride: 0 }
        },
        &check,
    );
    let tier = g.tier;
    g.random("random", g.tier.pick(30000, 200000), &move || strategy(tier), &check);
    // streams of 10 000 .. 20 000 inputs (hundreds of wrap-arounds); quick keeps the periods small
    let cap = g.tier.pick(48usize, 1024usize);
    g.random("long", g.tier.pick(64, 1000), &move || long_strategy(cap), &check);
    // identity events (tele.rs): at one or two steps the instance is replaced by its clone, by a used instance
    // (same or longer periods) that clone_from()s it, or by its serde round trip; nothing may change
    g.random("events", g.tier.pick(12000, 100000), &move || crate::tele::wrap(strategy(tier)), &|t: &crate::tele::TCase<Case>, ctx: &mut Ctx| crate::tele::check_wrapped(t, ctx, t.case.xs.len(), t.case.cfg.n(), check));
    // cached-extreme bookkeeping at every ring phase (see hist::extreme_stress), periods from the structural list
    const XP: [usize; 16] = [2, 3, 5, 8, 31, 64, 65, 100, 127, 128, 129, 200, 256, 257, 511, 1025];
    let seedx = g.seed;
    g.exhaustive(
        "extreme_stress",
        16 * 6 * 2 * 96,
        &move |i| {
            let phi = (i % 96) as usize;
            let r = i / 96;
            let kind = [Kind::Min, Kind::Max][(r % 2) as usize];
            let r = r / 2;
            let pattern = (r % 6) as usize;
            let n = XP[(r / 6) as usize];
            // every phase for small windows, 96 spread phases for large ones (always including n-1 and 0)
            let phase = if n <= 96 { phi % n } else if phi == 0 { 0 } else if phi == 1 { n - 1 } else { (phi * n) / 96 };
            let vals = crate::hist::extreme_stress(n, phase, pattern, seedx ^ i.wrapping_mul(0x9E3779B97F4A7C15));
            Case { cfg: Cfg { kind, p: vec![n], m: X(0.0) }, xs: xs(&vals), resets: vec![], stride: 0 }
        },
        &check,
    );
    // windows far beyond 1024 slots (the property samples 1..=1024; block sizes and re-sync intervals of an
    // implementation may sit higher): 3n+50 inputs, the O(n) reference evaluated every n/24-th step
    let seed = g.seed;
    let bigp: Vec<(Kind, usize)> = {
        let mut v = vec![];
        for &k in &[Kind::Sma, Kind::Wma, Kind::Sd, Kind::Bb, Kind::Min, Kind::Max] {
            for n in [1025usize, 1500, 4097, 5000, 9001] {
                v.push((k, n));
            }
        }
        for n in [1025usize, 1500, 2500, 6000, 10_000] {
            v.push((Kind::Mad, n));
        }
        // beyond 2^16 slots (a 16-bit counter, a u32 product of the count, a table sized for 65 536 entries)
        for &(k, n) in &[(Kind::Sma, 65_537usize), (Kind::Wma, 65_537), (Kind::Sd, 70_001), (Kind::Bb, 66_000), (Kind::Min, 65_537), (Kind::Max, 65_600)] {
            v.push((k, n));
        }
        v
    };
    let nbp = bigp.len() as u64;
    g.exhaustive(
        "large_periods",
        nbp * g.tier.pick(3, 7),
        &move |i| {
            let (kind, n) = bigp[(i % nbp) as usize];
            let regime = [0usize, 5, 6, 7, 4, 1, 3][((i / nbp) % 7) as usize];
            let mut s = seed ^ (i + 9).wrapping_mul(0x9E3779B97F4A7C15);
            let noise: Vec<f64> = (0..3 * n + 50).map(|_| unit(&mut s)).collect();
            let vals = expand(Domain::AnySign, regime, [1.0, 85.18, 1e5][(i % 3) as usize], unit(&mut s), &noise);
            Case { cfg: Cfg { kind, p: vec![n], m: X(2.0) }, xs: xs(&vals), resets: vec![], stride: n / 24 }
        },
        &check,
    );
    // ultra-long single-instance streams, recomputed from the harness's ring at sampled steps and
    // densely after every power-of-two step count (c13::check_as)
    let wk = [(Kind::Sma, 5usize), (Kind::Wma, 7), (Kind::Sd, 20), (Kind::Bb, 9), (Kind::Min, 14), (Kind::Max, 3), (Kind::Mad, 6), (Kind::Sd, 3)];
    g.exhaustive(
        "ultra",
        g.tier.pick(8 * 2, 8 * 5),
        &move |i| {
            let (kind, n) = wk[(i % 8) as usize];
            let regime = [3usize, 0, 4, 1, 2][((i / 8) % 5) as usize];
            let mut s = seed ^ (i + 3).wrapping_mul(0xA0761D6478BD642F);
            let sd = splitmix(&mut s);
            // the first round of configurations goes beyond 2^24 inputs, the others beyond 2^16
            let len = if i < 8 && kind != Kind::Mad { (1usize << 24) + 4000 } else { 140_000 };
            crate::props::c13::Case { kind, n, regime, base: X([0.37, 85.18, 1e4][(sd % 3) as usize]), seed: sd, len, saw: 2 + (sd >> 9) as usize % (n + 2) }
        },
        &|c, ctx| crate::props::c13::check_as(c, ctx, "C01", true),
    );
    if g.tier == Tier::Thorough {
        g.fuzz_stage("ops_value", Some(0), 600_000, "random", &|b| crate::fuzzdec::decode_c01(b), &check);
    }
}
