//! C11 — constructors reject exactly period 0; accessors, Display, Default are faithful.

use crate::adapter::*;
use crate::fw::*;
use crate::gen::*;
use crate::hist::*;
use proptest::collection::vec;
use proptest::prelude::*;
use serde::{Deserialize, Serialize};
use ta::errors::TaError;

#[derive(Clone, Debug, Serialize, Deserialize)]
pub struct Case {
    pub cfg: Cfg,
    /// later history fed after construction (accessors must not change)
    pub later: Vec<Inp>,
    pub reset_at: Option<usize>,
}

fn accessors_ok(ind: &Ind, cfg: &Cfg, when: &str, ctx: &mut Ctx) -> Result<(), Failure> {
    let k = cfg.kind;
    let name = k.name();
    let p = cfg.params();
    if let Some(per) = ind.period() {
        if per != p.p[0] {
            ctx.fail(format!("C11:{}:period_accessor", name), format!("{} {}: period() = {} but the constructor argument was {}", cfg.tag(), when, per, p.p[0]))?;
        }
    }
    if let Some(m) = ind.multiplier() {
        if m.to_bits() != p.m.to_bits() {
            ctx.fail(format!("C11:{}:multiplier_accessor", name), format!("{} {}: multiplier() = {:e} but the constructor argument was {:e}", cfg.tag(), when, m, p.m))?;
        }
    }
    let want = expected_display(k, &p);
    let got = ind.display();
    if got != want {
        ctx.fail(format!("C11:{}:display", name), format!("{}: Display is {:?}, expected {:?}", when, got, want))?;
    }
    Ok(())
}

pub fn check(c: &Case, ctx: &mut Ctx) -> Result<(), Failure> {
    let k = c.cfg.kind;
    let name = k.name();
    let p = c.cfg.params();
    let np = k.n_periods();
    let zeros = p.p[..np].iter().filter(|&&x| x == 0).count();
    let r = guarded(|| Ind::build(k, &p));
    let mut fp = Fp::new("C11");
    c.cfg.fp(&mut fp);
    let r = match r {
        Err(msg) => {
            if panic_is_harness(&msg) {
                panic!("HARNESS: {}", msg);
            }
            ctx.fail(format!("C11:{}:new:panic", name), format!("{}::new{:?} (multiplier {:e}) panicked: {}", name, &p.p[..np], p.m, msg))?;
            return Ok(());
        }
        Ok(r) => r,
    };
    match r {
        Err(e) => {
            if zeros == 0 {
                ctx.fail(format!("C11:{}:new:rejects_valid", name), format!("{}::new{:?} returned Err({:?}) although every period is positive", name, &p.p[..np], e))?;
            } else if e != TaError::InvalidParameter {
                ctx.fail(format!("C11:{}:new:wrong_error", name), format!("{}::new{:?} returned Err({:?}), expected InvalidParameter", name, &p.p[..np], e))?;
            }
        }
        Ok(mut ind) => {
            if zeros > 0 {
                ctx.fail(format!("C11:{}:new:accepts_zero", name), format!("{}::new{:?} returned Ok although a period argument is 0", name, &p.p[..np]))?;
                return Ok(());
            }
            accessors_ok(&ind, &c.cfg, "right after construction", ctx)?;
            for (i, inp) in c.later.iter().enumerate() {
                if c.reset_at == Some(i) {
                    ind.reset();
                }
                let r = guarded(|| feed(&mut ind, inp));
                if let Err(msg) = r {
                    if panic_is_harness(&msg) {
                        panic!("HARNESS: {}", msg);
                    }
                    ctx.fail(format!("C11:{}:next:panic", name), format!("{}: next panicked after construction: {}", c.cfg.tag(), msg))?;
                    return Ok(());
                }
                fp.f(inp.bar.c);
                if i % 50 == 49 && c.later.len() > 200 {
                    accessors_ok(&ind, &c.cfg, "during a long life", ctx)?;
                }
            }
            if !c.later.is_empty() {
                accessors_ok(&ind, &c.cfg, "after a history of next/reset", ctx)?;
                ctx.label("with_later_history");
            }
        }
    }
    ctx.label(&format!("kind:{}", name));
    let boundary = p.p[..np].iter().any(|&x| x >= (1usize << 31));
    if (zeros == 1 && np > 1) || p.p[..np].contains(&1) || boundary || (zeros == 1 && np == 1) {
        ctx.nontrivial(fp);
        ctx.label("nontrivial");
        if boundary {
            ctx.label("boundary_period");
        }
    }
    Ok(())
}

#[derive(Clone, Debug, Serialize, Deserialize)]
pub struct DCase {
    pub kind: Kind,
    pub inputs: Vec<Inp>,
}

pub fn check_default(c: &DCase, ctx: &mut Ctx) -> Result<(), Failure> {
    let k = c.kind;
    let name = k.name();
    let dp = k.default_params();
    let cfg = Cfg { kind: k, p: dp.p[..k.n_periods()].to_vec(), m: X(dp.m) };
    let d = guarded(|| Ind::default_of(k));
    let mut d = match d {
        Ok(d) => d,
        Err(msg) => {
            ctx.fail(format!("C11:{}:default:panic", name), format!("Default::default() panicked: {}", msg))?;
            return Ok(());
        }
    };
    let mut n = Ind::build(k, &dp).map_err(|_| Failure { signature: "C11:harness".into(), detail: "HARNESS default params rejected".into() })?;
    let want = expected_display(k, &dp);
    if d.display() != want || d.period() != n.period() || d.multiplier().map(f64::to_bits) != n.multiplier().map(f64::to_bits) {
        ctx.fail(
            format!("C11:{}:default:params", name),
            format!("Default::default() is {:?} (period {:?}, multiplier {:?}); documented default is {:?}", d.display(), d.period(), d.multiplier(), want),
        )?;
    }
    let mut fp = Fp::new("C11D");
    cfg.fp(&mut fp);
    for (i, inp) in c.inputs.iter().enumerate() {
        fp.f(inp.bar.c);
        fp.f(inp.bar.h);
        let a = feed(&mut d, inp);
        let b = feed(&mut n, inp);
        if !a.bits_eq(&b) && !same_out(&a, &b, 0.0) {
            ctx.fail(
                format!("C11:{}:default:behaviour", name),
                format!("step {}: Default::default() returns {:?}, new(documented defaults = {}) returns {:?}", i, a.vals(), want, b.vals()),
            )?;
        }
    }
    ctx.label(&format!("default:{}", name));
    if c.inputs.len() > flush_len(&cfg) + 1 {
        ctx.nontrivial(fp);
    }
    Ok(())
}

const MULTS: [f64; 7] = [0.0, -0.0, -1.0, 2.5, 1e300, f64::INFINITY, f64::NAN];
const BOUNDS: [usize; 5] = [1usize << 31, 1usize << 32, (1usize << 53) + 1, usize::MAX - 1, usize::MAX];

fn single_kinds() -> Vec<Kind> {
    ALL_KINDS.iter().copied().filter(|k| k.n_periods() == 1).collect()
}

/// boundary configurations: every allocation-free period argument set to each boundary value
pub fn boundary_cfgs() -> Vec<Cfg> {
    let mut v = vec![];
    for &b in &BOUNDS {
        for kind in [Kind::Ema, Kind::Atr, Kind::Rsi] {
            v.push(Cfg { kind, p: vec![b], m: X(0.0) });
        }
        for (j, &m) in MULTS.iter().enumerate() {
            if j % 2 == 0 {
                v.push(Cfg { kind: Kind::Kc, p: vec![b], m: X(m) });
            }
        }
        v.push(Cfg { kind: Kind::SlowStoch, p: vec![3, b], m: X(0.0) });
        v.push(Cfg { kind: Kind::SlowStoch, p: vec![0, b], m: X(0.0) });
        for kind in [Kind::Macd, Kind::Ppo] {
            for pos in 0..3 {
                let mut p = vec![12, 26, 9];
                p[pos] = b;
                v.push(Cfg { kind, p: p.clone(), m: X(0.0) });
                p[(pos + 1) % 3] = 0;
                v.push(Cfg { kind, p, m: X(0.0) });
            }
            v.push(Cfg { kind, p: vec![b, b, b], m: X(0.0) });
        }
    }
    // neighbouring large periods in two arguments (smoothing factors closer than f64::EPSILON, equal from 2^53 on:
    // two averages that "are the same" to a shortcut keep different parameters all the same)
    for &b in &[95_000_000usize, 123_456_789, 1_000_000_000, (1 << 32) - 1, 1 << 32, 1 << 53, usize::MAX - 2] {
        for kind in [Kind::Macd, Kind::Ppo] {
            v.push(Cfg { kind, p: vec![b, b + 1, 9], m: X(0.0) });
            v.push(Cfg { kind, p: vec![b + 1, b, 9], m: X(0.0) });
            v.push(Cfg { kind, p: vec![12, b, b + 1], m: X(0.0) });
            v.push(Cfg { kind, p: vec![b, 26, b + 1], m: X(0.0) });
            v.push(Cfg { kind, p: vec![b, b + 1, b + 2], m: X(0.0) });
        }
    }
    v
}

fn later_strategy() -> BoxedStrategy<Case> {
    any_kind()
        .prop_flat_map(|k| cfg_for(k, 300, prop_oneof![multiplier_any(), (0usize..7).prop_map(|i| MULTS[i])].boxed()))
        .prop_flat_map(|cfg| {
            let n = flush_len(&cfg);
            (Just(cfg), vec(inp_special(5), 1..=(2 * n + 8)), proptest::option::of(0usize..(2 * n + 8)))
        })
        .prop_map(|(cfg, later, reset_at)| Case { cfg, later, reset_at })
        .boxed()
}
fn default_strategy() -> BoxedStrategy<DCase> {
    // any sign and size: a Default assembled by hand may start from other sentinels than new() does (a window
    // pre-filled with 0 instead of -inf shows only on negative inputs)
    (any_kind(), prop_oneof![3 => vec(inp_finite(), 1..=90), 1 => vec(inp_special(10), 1..=90)], prop_oneof![3 => Just(1.0f64), 2 => Just(-1.0), 1 => Just(1e-6), 1 => Just(-1e6), 1 => Just(0.0)])
        .prop_map(|(kind, mut inputs, unit)| {
            if unit != 1.0 {
                for i in inputs.iter_mut() {
                    let b = &mut i.bar;
                    let (h, l) = (b.h * unit, b.l * unit);
                    b.o *= unit;
                    b.c *= unit;
                    b.h = if h >= l || h.is_nan() { h } else { l };
                    b.l = if h >= l || h.is_nan() { l } else { h };
                }
            }
            DCase { kind, inputs }
        })
        .boxed()
}

pub fn run(g: &mut Global) {
    g.rule = "exhaustive, seed-independent: every single-period constructor (17 indicators) for every period 0..=4096 with multipliers rotating over {0,-0.0,-1,2.5,1e300,inf,NaN}; every tuple over 0..=24 for MACD and PPO (25^3 each) and SLOW_STOCH (25^2); boundary values 2^31, 2^32, 2^53+1, usize::MAX-1, usize::MAX in every allocation-free period argument (EMA, ATR, RSI, KC, MACD, PPO, SLOW_STOCH's EMA period), alone and next to a zero; TRUE_RANGE and OBV; random: constructed instances followed by a later history of next/reset; Default::default() vs new(documented defaults) on generated streams. Oracle: Err(InvalidParameter) iff some period argument is 0, otherwise Ok, never a panic (overflow checks on); period() and multiplier() (bit-equal) return the arguments before and after any history; Display equals NAME(params) rendered with Rust's own Display; Default has the documented parameters and behaves bit-identically to new(defaults). Non-trivial = period 1, a boundary period, or exactly one zero among the arguments; distinct by hash of (kind, arguments, later history).".into();
    g.assumptions = vec!["windowed constructors are driven to 4096 only (allocation); 'as far as memory allows' is not explored beyond that".into()];
    let sk = single_kinds();
    let nsk = sk.len() as u64;
    g.exhaustive(
        "single",
        nsk * 4097,
        &move |i| {
            let kind = sk[(i / 4097) as usize];
            let n = (i % 4097) as usize;
            // a short later history with a reset in it: accessors and Display must survive both
            Case { cfg: Cfg { kind, p: vec![n], m: X(if kind.has_mult() { MULTS[n % 7] } else { 0.0 }) }, later: vec![letter(2.0), letter(5.0), letter(3.0)], reset_at: Some(1 + n % 2) }
        },
        &check,
    );
    g.exhaustive(
        "tuples",
        2 * 15625 + 625 + 2,
        &|i| {
            let cfg = if i < 31250 {
                let kind = if i < 15625 { Kind::Macd } else { Kind::Ppo };
                let j = i % 15625;
                Cfg { kind, p: vec![(j % 25) as usize, ((j / 25) % 25) as usize, (j / 625) as usize], m: X(0.0) }
            } else if i < 31875 {
                let j = i - 31250;
                Cfg { kind: Kind::SlowStoch, p: vec![(j % 25) as usize, (j / 25) as usize], m: X(0.0) }
            } else if i == 31875 {
                Cfg { kind: Kind::Tr, p: vec![], m: X(0.0) }
            } else {
                Cfg { kind: Kind::Obv, p: vec![], m: X(0.0) }
            };
            // closes 4, -4, 3, -3: exponential averages cancel to exactly 0 for some periods (a division by a zero
            // average must not disturb the parameters), with a reset in the middle for every other tuple
            let ex = |v: f64| Inp { bar: crate::adapter::RawBar { o: v, h: v.abs() + 1.0, l: -v.abs() - 1.0, c: v, v: 5.0 }, scalar: true };
            Case { cfg, later: vec![ex(4.0), ex(-4.0), ex(3.0), ex(-3.0), ex(1.5)], reset_at: if i % 2 == 0 { Some(3) } else { None } }
        },
        &check,
    );
    let bc = boundary_cfgs();
    g.exhaustive("boundary", bc.len() as u64, &move |i| Case { cfg: bc[i as usize].clone(), later: vec![letter(1.0), letter(3.0), letter(2.0)], reset_at: Some(2) }, &check);
    g.random("later_history", g.tier.pick(200000, 600000), &later_strategy, &check);
    // lives of 1 500 inputs under structured data (strictly rising / falling, geometric growth and decline, constant,
    // two alternating values, saw-tooth), accessors and Display examined after every 50th input and at the end: a
    // repair path that rebuilds a component from the wrong template changes what the instance reports about itself
    let pats = 8u64;
    let sets: Vec<Cfg> = {
        let mut v = vec![];
        for &k in ALL_KINDS.iter() {
            match k.n_periods() {
                0 => v.push(Cfg { kind: k, p: vec![], m: X(0.0) }),
                1 => {
                    for n in [9usize, 22, 30] {
                        v.push(Cfg { kind: k, p: vec![n], m: X(if k.has_mult() { 2.5 } else { 0.0 }) });
                    }
                }
                2 => {
                    for p in [[14usize, 22], [14, 3], [5, 30], [9, 47], [22, 14]] {
                        v.push(Cfg { kind: k, p: p.to_vec(), m: X(0.0) });
                    }
                }
                _ => {
                    for p in [[3usize, 6, 4], [5, 10, 4], [12, 26, 9], [2, 3, 22], [26, 12, 30]] {
                        v.push(Cfg { kind: k, p: p.to_vec(), m: X(0.0) });
                    }
                }
            }
        }
        v
    };
    let nsets = sets.len() as u64;
    g.exhaustive(
        "structured_lives",
        nsets * pats,
        &move |i| {
            let cfg = sets[(i / pats) as usize].clone();
            let pat = i % pats;
            let later: Vec<Inp> = (0..1500usize)
                .map(|t| {
                    let x = match pat {
                        0 => 100.0 + t as f64 * 0.25,
                        1 => 1000.0 - t as f64 * 0.25,
                        2 => 50.0 * 1.01f64.powi(t as i32),
                        3 => 5e4 * 0.99f64.powi(t as i32),
                        4 => 42.5,
                        5 => [10.0, 11.0][t % 2],
                        6 => 100.0 + (t % 17) as f64,
                        _ => 3.0 * 1.003f64.powi(t as i32),
                    };
                    // rising bars close on their high, falling ones on their low
                    let (h, l) = (x * 1.002, x * 0.998);
                    let c = if pat % 2 == 0 { h } else { l };
                    Inp { bar: crate::adapter::RawBar { o: x, h, l, c, v: 100.0 }, scalar: t % 3 != 0 && pat != 7 }
                })
                .collect();
            Case { cfg, later, reset_at: if pat == 6 { Some(700) } else { None } }
        },
        &check,
    );
    // a long life with a reset shortly before a power-of-two call count: a periodic rebuild that derives the
    // parameters from the current state would change period()/Display exactly there
    let seedl = g.seed;
    g.exhaustive(
        "long_life",
        22 * 2 * 9 * 4,
        &move |i| {
            let kind = ALL_KINDS[(i % 22) as usize];
            let r = i / 22;
            let n = [3usize, 20][(r % 2) as usize];
            let r = r / 2;
            let pw = 1usize << (8 + (r % 9));
            let j = [1usize, 2, n - 1, n][(r / 9) as usize % 4];
            let mut st = seedl ^ (i + 11).wrapping_mul(0x9E3779B97F4A7C15);
            let later: Vec<Inp> = (0..pw + 3).map(|_| letter(1.0 + (splitmix(&mut st) % 1000) as f64 / 8.0)).collect();
            let mut cfg = cfg_small(kind, n);
            if kind.has_mult() {
                cfg.m = X(2.5);
            }
            Case { cfg, later, reset_at: Some(pw - j) }
        },
        &check,
    );
    g.random("defaults", g.tier.pick(200000, 600000), &default_strategy, &check_default);
}
