//! Ultra-long single-instance streams (beyond 2^16 and, in places, 2^24 inputs) for the recursive and
//! lookback indicators of C02 and C03. The stream is expanded from a generated seed inside the check
//! (as in C13); the double-double reference recursions run at every step, the comparison happens at
//! the early steps, at pseudo-random later steps, densely right after every power-of-two step count
//! (where narrow counters wrap) and at the end.

use crate::adapter::{Ind, Kind, RawBar};
use crate::dd::DD;
use crate::fw::*;
use crate::gen::Cfg;
use crate::props::c13::{near_pow2, Gen, REGIMES};
use crate::refs::*;
use serde::{Deserialize, Serialize};

#[derive(Clone, Debug, Serialize, Deserialize)]
pub struct LCase {
    pub cfg: Cfg,
    pub scalar: bool,
    pub regime: usize,
    pub base: X,
    pub seed: u64,
    pub len: usize,
    pub saw: usize,
}

pub fn check_long(c: &LCase, ctx: &mut Ctx, id: &str) -> Result<(), Failure> {
    let k = c.cfg.kind;
    let name = k.name();
    let p = c.cfg.params();
    let n = c.cfg.n();
    let m = p.m;
    let scalar = c.scalar && k.scalar();
    let mut ind = Ind::build(k, &p).map_err(|_| Failure { signature: format!("{}:harness", id), detail: "HARNESS build".into() })?;
    let mut gen = Gen::new(c.seed, c.regime, c.base.0, c.saw);
    let mut pick = c.seed.wrapping_mul(0x9E3779B97F4A7C15) | 1;
    let sample_p = 300.0 / (c.len.max(1) as f64);
    let cap = n + 1;
    let mut ring: Vec<RawBar> = Vec::with_capacity(cap);
    let mut head = 0usize;
    let mut win: Vec<RawBar> = Vec::with_capacity(cap);
    let mut big = 0.0f64;
    // reference recursions
    let mut e1 = EmaRef::new(n.max(1));
    let mut e2 = EmaRef::new(p.p[1].max(1));
    let mut e3 = EmaRef::new(p.p[2].max(1));
    let mut atr = EmaRef::new(n.max(1));
    let mut slow = EmaRef::new(p.p[1].max(1));
    let mut tr = TrRef::default();
    let mut rsi = RsiRef::new(n.max(1));
    let mut obv = DD::ZERO;
    let mut obv_prev = 0.0f64;
    let mut obv_scale = 0.0f64;
    let mut cmax = 1.0f64;
    let mscale = if k.has_mult() { m.abs().max(1.0) } else { 1.0 };
    let (mut checked, mut skipped) = (0u64, 0u64);
    for i in 0..c.len {
        let bar = if scalar { RawBar::flat(gen.next(), 0.0) } else { gen.bar() };
        let out = if scalar { ind.next_scalar(bar.c) } else { ind.next_bar(&bar) };
        let t = i + 1;
        let x = bar.c;
        big = big.max(if scalar { x.abs() } else { bar.max_abs_price() });
        if ring.len() < cap {
            ring.push(bar);
        } else {
            ring[head] = bar;
            head = (head + 1) % cap;
        }
        // (field, reference, tolerance) — recursions advance at every step
        let mut exp: Vec<(&'static str, DD, f64)> = Vec::with_capacity(3);
        let tol = tau(t) * big * mscale;
        let mut needs_window = false;
        match k {
            Kind::Ema => exp.push(("ema", e1.next(DD::from(x)), tol)),
            Kind::Tr => exp.push(("tr", if scalar { tr.next_scalar(x) } else { tr.next_bar(&bar) }, tol)),
            Kind::Atr => {
                let r = if scalar { tr.next_scalar(x) } else { tr.next_bar(&bar) };
                exp.push(("atr", atr.next(r), tol));
            }
            Kind::Macd => {
                let f = e1.next(DD::from(x));
                let s = e2.next(DD::from(x));
                let line = f.sub(s);
                let sig = e3.next(line);
                exp.push(("macd", line, tol));
                exp.push(("signal", sig, tol));
                exp.push(("histogram", line.sub(sig), tol));
            }
            Kind::Kc => {
                let (price, trv) = if scalar { (DD::from(x), tr.next_scalar(x)) } else { (tp_dd(&bar), tr.next_bar(&bar)) };
                let avg = e1.next(price);
                let a = atr.next(trv).mul_f(m);
                exp.push(("average", avg, tol));
                exp.push(("upper", avg.add(a), tol));
                exp.push(("lower", avg.sub(a), tol));
            }
            Kind::Ce => {
                let a = atr.next(tr.next_bar(&bar)).mul_f(m);
                // window extremes are filled in below, at sampled steps only
                exp.push(("long", a.neg(), tol));
                exp.push(("short", a, tol));
                needs_window = true;
            }
            Kind::Rsi => match rsi.next(x) {
                Some(r) if r.c <= 1e6 => exp.push(("rsi", r.val, tau(t) * r.c.max(1.0) * 100.0)),
                _ => {}
            },
            Kind::Ppo => {
                let f = e1.next(DD::from(x));
                let s = e2.next(DD::from(x));
                if !s.is_zero() {
                    let ppo = f.sub(s).div(s).mul_f(100.0);
                    cmax = cmax.max(f.to_f64().abs().max(s.to_f64().abs()) / s.to_f64().abs());
                    let sig = e3.next(ppo);
                    let tl = tau(t) * cmax * 100.0;
                    exp.push(("ppo", ppo, tl));
                    exp.push(("signal", sig, tl));
                    exp.push(("histogram", ppo.sub(sig), tl));
                }
            }
            Kind::Obv => {
                if x > obv_prev {
                    obv = obv.add_f(bar.v);
                } else if x < obv_prev {
                    obv = obv.sub_f(bar.v);
                }
                obv_prev = x;
                obv_scale = obv_scale.max(obv.to_f64().abs()).max(bar.v.abs());
                exp.push(("obv", obv, tau(t) * obv_scale));
            }
            Kind::SlowStoch => {
                // fast stochastic over the ring at every step (n is small in these stages)
                let wl = t.min(n);
                let (mut hi, mut lo) = (f64::NEG_INFINITY, f64::INFINITY);
                for j in 0..wl {
                    let b = &ring[(head + ring.len() - 1 - j) % ring.len()];
                    let (h, l) = if scalar { (b.c, b.c) } else { (b.h, b.l) };
                    hi = hi.max(h);
                    lo = lo.min(l);
                }
                let f = fast_stoch_ref(&[hi], &[lo], x);
                cmax = cmax.max(f.c);
                let v = slow.next(f.val);
                if cmax <= 1e6 {
                    exp.push(("slow", v, tau(t) * cmax * 100.0));
                }
            }
            Kind::FastStoch | Kind::Roc | Kind::Er => needs_window = true,
            _ => unreachable!("HARNESS: kind not handled by longrun"),
        }
        let sampled = t <= 3 * n + 50 || t + 2 >= c.len || near_pow2(t, n) || unit(&mut pick) < sample_p;
        if !sampled {
            continue;
        }
        if needs_window {
            win.clear();
            for j in 0..ring.len() {
                win.push(ring[(head + j) % ring.len()]);
            }
            let wl = t.min(n);
            let wb = &win[win.len() - wl..];
            match k {
                Kind::Ce => {
                    let hi = wb.iter().map(|b| b.h).fold(f64::NEG_INFINITY, f64::max);
                    let lo = wb.iter().map(|b| b.l).fold(f64::INFINITY, f64::min);
                    exp[0].1 = DD::from(hi).add(exp[0].1);
                    exp[1].1 = DD::from(lo).add(exp[1].1);
                }
                Kind::FastStoch => {
                    let hs: Vec<f64> = wb.iter().map(|b| if scalar { b.c } else { b.h }).collect();
                    let ls: Vec<f64> = wb.iter().map(|b| if scalar { b.c } else { b.l }).collect();
                    let r = fast_stoch_ref(&hs, &ls, x);
                    if r.c <= 1e6 {
                        exp.push(("fast", r.val, if r.c == 0.0 { 0.0 } else { tau(t) * r.c.max(1.0) * 100.0 }));
                    }
                }
                Kind::Roc | Kind::Er => {
                    // the ring holds the last n+1 closes (the whole history while t <= n+1), which is
                    // exactly the lookback both formulas need
                    let cl: Vec<f64> = win.iter().map(|b| b.c).collect();
                    let r = if k == Kind::Roc { roc_ref(&cl, n) } else { er_ref(&cl, n) };
                    match r {
                        Some(r) if r.c <= 1e6 => exp.push((if k == Kind::Roc { "roc" } else { "er" }, r.val, tau(t) * r.c.max(1.0) * if k == Kind::Roc { 100.0 } else { 1.0 })),
                        _ => {}
                    }
                }
                _ => {}
            }
        }
        if exp.is_empty() {
            skipped += 1;
            continue;
        }
        for (j, (field, r, tl)) in exp.iter().enumerate() {
            let got = out.v[j];
            let e = err(got, *r);
            checked += 1;
            ctx.worst(&format!("{}.{}:{}", name, field, REGIMES[c.regime]), if *tl > 0.0 { e / tl } else { 0.0 });
            let ok = if *tl == 0.0 { got == r.to_f64() } else { e <= *tl };
            if !ok {
                ctx.fail(
                    format!("{}:{}:{}:longrun_mismatch", id, name, field),
                    format!(
                        "{} ({} path), regime {} (band base {:e}), after {} inputs on one instance: {} = {:e}, documented formula gives {:e}; |err| {:e} > tol {:e}",
                        c.cfg.tag(), if scalar { "scalar" } else { "bar" }, REGIMES[c.regime], c.base.0, t, field, got, r.to_f64(), e, tl
                    ),
                )?;
                return Ok(());
            }
        }
    }
    ctx.label(&format!("long:{}:{}", name, if c.len > (1 << 24) { ">2^24" } else if c.len > (1 << 16) { ">2^16" } else { "<=2^16" }));
    ctx.label_n("long_stream_steps", c.len as u64);
    ctx.label_n("long_sampled_comparisons", checked);
    ctx.label_n("long_sampled_skipped", skipped);
    if checked >= 50 {
        let mut fp = Fp::new(id);
        c.cfg.fp(&mut fp);
        fp.u(scalar as u64);
        fp.u(c.regime as u64);
        fp.f(c.base.0);
        fp.u(c.seed);
        fp.u(c.len as u64);
        ctx.nontrivial(fp);
        ctx.label("nontrivial");
    }
    Ok(())
}

/// index → long case over a list of configurations x regimes; lengths: `len` for all, `ultra` (> 2^24)
/// for the first `n_ultra` configurations (the O(1)-per-step ones)
pub fn grid_case(cfgs: &[(Cfg, bool)], i: u64, seed: u64, len: usize) -> LCase {
    let nc = cfgs.len() as u64;
    let (cfg, scalar) = cfgs[(i % nc) as usize].clone();
    let regime = ((i / nc) % 5) as usize;
    let mut s = seed ^ (i + 1).wrapping_mul(0xD1B54A32D192ED03);
    let sd = splitmix(&mut s);
    let base = [0.37, 1e-3, 85.18, 1e4][(sd % 4) as usize];
    let n = cfg.n();
    LCase { cfg, scalar, regime, base: X(base), seed: sd, len, saw: 2 + (sd >> 8) as usize % (n + 2) }
}
