//! C14 — outputs are covariant with the price unit: rescaling / shifting act as in the math.

use crate::adapter::{Ind, Kind, Params, RawBar};
use crate::dd::DD;
use crate::fw::*;
use crate::gen::*;
use crate::refs::*;
use proptest::prelude::*;
use serde::{Deserialize, Serialize};

#[derive(Clone, Debug, Serialize, Deserialize)]
pub enum Tr {
    /// multiply every price by 2^k
    Pow2(i32),
    /// multiply every price by an arbitrary positive constant
    Scale(X),
    /// add a constant to every price
    Shift(X),
    /// x -> -x : Maximum(x) = -Minimum(-x)
    Mirror,
}

#[derive(Clone, Debug, Serialize, Deserialize)]
pub struct Case {
    pub cfg: Cfg,
    pub scalar: bool,
    /// valid bars; the scalar path feeds bar.c
    pub bars: Vec<RawBar>,
    pub tr: Tr,
}

fn price_valued(k: Kind) -> bool {
    matches!(k, Kind::Sma | Kind::Ema | Kind::Wma | Kind::Min | Kind::Max | Kind::Sd | Kind::Mad | Kind::Tr | Kind::Atr | Kind::Macd | Kind::Bb | Kind::Kc | Kind::Ce)
}
fn natural_scale(k: Kind) -> f64 {
    match k {
        Kind::Er => 1.0,
        Kind::Cci => 1.0 / 0.015,
        _ => 100.0,
    }
}

fn map_bar(b: &RawBar, tr: &Tr) -> RawBar {
    let f = |x: f64| match tr {
        Tr::Pow2(k) => x * 2f64.powi(*k),
        Tr::Scale(c) => x * c.0,
        Tr::Shift(d) => x + d.0,
        Tr::Mirror => -x,
    };
    RawBar { o: f(b.o), h: f(b.h), l: f(b.l), c: f(b.c), v: b.v }
}

pub fn check(c: &Case, ctx: &mut Ctx) -> Result<(), Failure> {
    let k = c.cfg.kind;
    let name = k.name();
    let p = c.cfg.params();
    let n = c.cfg.n();
    let scalar = c.scalar && k.scalar();
    let mk = |kk: Kind, pp: &Params| Ind::build(kk, pp).map_err(|_| Failure { signature: "C14:harness".into(), detail: "HARNESS build".into() });
    let mut fp = Fp::new("C14");
    c.cfg.fp(&mut fp);
    fp.u(scalar as u64);
    let trname = match &c.tr {
        Tr::Pow2(k2) => {
            fp.u(*k2 as u64);
            "pow2"
        }
        Tr::Scale(s) => {
            fp.f(s.0);
            "scale"
        }
        Tr::Shift(d) => {
            fp.f(d.0);
            "shift"
        }
        Tr::Mirror => "mirror",
    };
    for b in &c.bars {
        fp.f(b.c);
        fp.f(b.h);
        fp.f(b.l);
    }
    // ---- mirror: Maximum(x) == -Minimum(-x) exactly
    if let Tr::Mirror = c.tr {
        let mut mx = mk(Kind::Max, &Params::one(n))?;
        let mut mn = mk(Kind::Min, &Params::one(n))?;
        for (i, b) in c.bars.iter().enumerate() {
            let a = mx.next_scalar(b.c).x();
            let m2 = -mn.next_scalar(-b.c).x();
            if a != m2 {
                ctx.fail("C14:MAX:mirror".into(), format!("MAX({}) step {}: Maximum(x) = {:e} but -Minimum(-x) = {:e}", n, i, a, m2))?;
            }
        }
        ctx.label("transform:mirror");
        if c.bars.len() > n + 1 {
            ctx.nontrivial(fp);
        }
        return Ok(());
    }
    let mut a = mk(k, &p)?;
    let mut b = mk(k, &p)?;
    let m = p.m;
    let mscale = if k.has_mult() { m.abs().max(1.0) } else { 1.0 };
    let mut big = 0.0f64; // largest original price magnitude
    let mut big2 = 0.0f64; // largest transformed price magnitude
    // reference state for condition numbers (arbitrary scale only)
    let mut hist: Vec<f64> = vec![];
    let mut hb: Vec<RawBar> = vec![];
    let mut highs: Vec<f64> = vec![];
    let mut lows: Vec<f64> = vec![];
    let mut cmax = 0.0f64;
    let mut tpbig = 0.0f64;
    let mut flowbig = 0.0f64;
    let mut tie_poison = false; // OBV: an ambiguous close comparison poisons the running sum
    let mut vol_cum = 0.0f64;
    let (mut checked, mut skipped) = (0u64, 0u64);
    let mut t0 = 0usize;
    for (i, bar0) in c.bars.iter().enumerate() {
        // reset() of both twins at the same step (tele.rs, only in the `resets` stage): a used-and-reset instance
        // is as good as a new one, so every relation restarts there — together with this check's own history
        if crate::tele::due_reset() {
            a.reset();
            b.reset();
            t0 = i;
            big = 0.0;
            big2 = 0.0;
            hist.clear();
            hb.clear();
            highs.clear();
            lows.clear();
            cmax = 0.0;
            tpbig = 0.0;
            flowbig = 0.0;
            tie_poison = false;
            vol_cum = 0.0;
            ctx.label("reset_of_both_twins");
        }
        // mixed use of both paths on one instance (tele.rs): on some steps of a bar-fed case both twins get
        // next(close); the relation is then that of the one-price bar this stands for
        let sc_step = !scalar && k.scalar() && crate::tele::scalar_here();
        let bar_eff = if sc_step { RawBar::flat(bar0.c, bar0.v) } else { *bar0 };
        let bar = &bar_eff;
        let tb = map_bar(bar, &c.tr);
        // identity events (tele.rs) hit the instance fed the transformed stream
        crate::tele::step(&mut b, &c.cfg);
        let (oa, ob) = if scalar || sc_step { (a.next_scalar(bar.c), b.next_scalar(tb.c)) } else { (a.next_bar(bar), b.next_bar(&tb)) };
        let t = i + 1 - t0;
        big = big.max(if scalar { bar.c.abs() } else { bar.max_abs_price() });
        big2 = big2.max(if scalar { tb.c.abs() } else { tb.max_abs_price() });
        hist.push(bar.c);
        hb.push(*bar);
        highs.push(if scalar { bar.c } else { bar.h });
        lows.push(if scalar { bar.c } else { bar.l });
        vol_cum += bar.v.abs();
        let w0 = t - t.min(n);
        let mut bad: Option<(String, String)> = None;
        match &c.tr {
            Tr::Pow2(k2) => {
                let f = 2f64.powi(*k2);
                for j in 0..oa.n as usize {
                    let (x, y) = (oa.v[j], ob.v[j]);
                    let (want, floor) = if price_valued(k) { (x * f, big2) } else { (x, if k == Kind::Obv { vol_cum } else { natural_scale(k) }) };
                    checked += 1;
                    let ok = (want.is_nan() && y.is_nan()) || want == y || (want - y).abs() <= 1e-12 * want.abs().max(floor);
                    if !ok {
                        bad = Some(("pow2".into(), format!("field {}: original output {:e}, after scaling prices by 2^{} output {:e}, expected {:e}", j, x, k2, y, want)));
                    }
                }
            }
            Tr::Scale(s) => {
                let f = s.0;
                if price_valued(k) {
                    for j in 0..oa.n as usize {
                        let (x, y) = (oa.v[j], ob.v[j]);
                        checked += 1;
                        let ok = if k == Kind::Sd {
                            (y * y - f * f * x * x).abs() <= 1e-9 * big2 * big2
                        } else if k == Kind::Bb && j > 0 {
                            // band level = average ± m·sd: the width is compared on the variance scale
                            let sda = if m != 0.0 { ((oa.v[1] - oa.v[0]) / m).abs() * f } else { 0.0 };
                            let (lo, hi) = sd_interval(DD::prod(sda, sda), 1e-9 * big2 * big2);
                            let dsd = (hi - sda).max(sda - lo);
                            (y - f * x).abs() <= 1e-9 * big2 + m.abs() * dsd + 8.0 * ulp(big2 * mscale)
                        } else {
                            (y - f * x).abs() <= 1e-9 * big2 * mscale
                        };
                        if !ok {
                            bad = Some(("scale".into(), format!("field {}: original output {:e}, after scaling prices by {:e} output {:e}, expected {:e}", j, x, f, y, f * x)));
                        }
                    }
                } else {
                    // dimensionless: condition number from the reference, tie rule
                    let cond: Option<f64> = match k {
                        Kind::FastStoch => Some(fast_stoch_ref(&highs[w0..], &lows[w0..], bar.c).c),
                        Kind::SlowStoch => {
                            cmax = cmax.max(fast_stoch_ref(&highs[w0..], &lows[w0..], bar.c).c);
                            Some(cmax)
                        }
                        Kind::Roc => roc_ref(&hist, n).map(|r| r.c),
                        Kind::Er => er_ref(&hist, n).map(|r| r.c),
                        Kind::Ppo => Some(1.0),
                        Kind::Cci => {
                            tpbig = tpbig.max(bar.tp().abs());
                            cci_ref(&hb, n, tpbig).map(|r| r.c)
                        }
                        Kind::Mfi => {
                            if t < 2 {
                                Some(0.0)
                            } else {
                                let mr = mfi_ref_ex(&hb, n, 1e-9, false);
                                if crate::refs::may_flow(&hb[t - 2], bar) {
                                    flowbig = flowbig.max((bar.tp() * bar.v).abs());
                                }
                                let den = mr.pmf.add(mr.nmf).to_f64();
                                if mr.tainted || !(den > 0.0) {
                                    None
                                } else {
                                    Some(flowbig.max(mr.max_flow_in_window) / den)
                                }
                            }
                        }
                        Kind::Obv => {
                            if t >= 2 {
                                let (p0, p1) = (hist[t - 2], hist[t - 1]);
                                if p0 != p1 && (p0 - p1).abs() < 1e-9 * p0.abs().max(p1.abs()) {
                                    tie_poison = true;
                                }
                            }
                            if tie_poison {
                                None
                            } else {
                                Some(1.0)
                            }
                        }
                        _ => None,
                    };
                    match cond {
                        Some(cc) if cc <= 1e5 => {
                            for j in 0..oa.n as usize {
                                let (x, y) = (oa.v[j], ob.v[j]);
                                checked += 1;
                                let floor = if k == Kind::Obv { vol_cum } else { natural_scale(k) };
                                let ok = (x.is_nan() && y.is_nan()) || x == y || (x - y).abs() <= 1e-9 * cc.max(1.0) * x.abs().max(floor);
                                if !ok {
                                    bad = Some(("scale".into(), format!("field {}: dimensionless output changed from {:e} to {:e} when prices were scaled by {:e} (condition number {:e})", j, x, y, f, cc)));
                                }
                            }
                        }
                        _ => skipped += 1,
                    }
                }
            }
            Tr::Shift(dd) => {
                let d = dd.0;
                let tol = tau(t) * (big + d.abs());
                match k {
                    Kind::Sma | Kind::Ema | Kind::Wma | Kind::Bb | Kind::Kc | Kind::Ce => {
                        for j in 0..oa.n as usize {
                            checked += 1;
                            let (x, y) = (oa.v[j], ob.v[j]);
                            // band levels inherit the width's tolerance: variance scale for BB widths
                            let tl = if k == Kind::Bb && j > 0 { bb_shift_tol(m, t, big + d.abs(), &hist[w0..]) } else { tol * mscale };
                            if !((y - (x + d)).abs() <= tl) {
                                bad = Some(("shift".into(), format!("field {}: output {:e}, after adding {:e} to every price {:e}, expected {:e} (tol {:e})", j, x, d, y, x + d, tl)));
                            }
                        }
                    }
                    Kind::Min | Kind::Max => {
                        checked += 1;
                        if ob.x() != oa.x() + d {
                            bad = Some(("shift".into(), format!("extreme {:e}, after adding {:e} to every price {:e}, expected exactly {:e}", oa.x(), d, ob.x(), oa.x() + d)));
                        }
                    }
                    Kind::Sd => {
                        checked += 1;
                        let tv = tau(t) * (big + d.abs()) * (big + d.abs());
                        if !((ob.x() * ob.x() - oa.x() * oa.x()).abs() <= tv) {
                            bad = Some(("shift".into(), format!("sd {:e} became {:e} after adding {:e} to every price (variance tolerance {:e})", oa.x(), ob.x(), d, tv)));
                        }
                    }
                    Kind::Mad | Kind::Tr | Kind::Atr | Kind::Macd => {
                        for j in 0..oa.n as usize {
                            checked += 1;
                            if !((ob.v[j] - oa.v[j]).abs() <= tol) {
                                bad = Some(("shift".into(), format!("field {}: {:e} became {:e} after adding {:e} to every price (tol {:e})", j, oa.v[j], ob.v[j], d, tol)));
                            }
                        }
                    }
                    Kind::FastStoch => {
                        let hi = wmax(&highs[w0..]);
                        let lo = wmin(&lows[w0..]);
                        if hi == lo {
                            checked += 1;
                            if ob.x() != 50.0 || oa.x() != 50.0 {
                                bad = Some(("shift".into(), format!("flat window: outputs {:e} / {:e}, expected 50", oa.x(), ob.x())));
                            }
                        } else if (big + d.abs()) / (hi - lo) <= 1e5 {
                            checked += 1;
                            if !((ob.x() - oa.x()).abs() <= 1e-7) {
                                bad = Some(("shift".into(), format!("{:e} became {:e} after adding {:e} to every price", oa.x(), ob.x(), d)));
                            }
                        } else {
                            skipped += 1;
                        }
                    }
                    _ => skipped += 1,
                }
            }
            Tr::Mirror => unreachable!(),
        }
        if let Some((sym, what)) = bad {
            ctx.fail(format!("C14:{}:{}", name, sym), format!("{} ({} path) step {}: {}", c.cfg.tag(), if scalar { "scalar" } else { "bar" }, i, what))?;
        }
    }
    ctx.label(&format!("kind:{}", name));
    ctx.label(&format!("transform:{}", trname));
    ctx.label_n("comparisons", checked);
    ctx.label_n("skipped_illconditioned_or_tie", skipped);
    let identity = match &c.tr {
        Tr::Pow2(0) => true,
        Tr::Scale(s) => s.0 == 1.0,
        Tr::Shift(d) => d.0 == 0.0,
        _ => false,
    };
    if !identity && checked > 0 && c.bars.len() > n {
        ctx.nontrivial(fp);
        ctx.label("nontrivial");
        if big2 < 1e-6 || big2 > 1e9 {
            ctx.label("nontrivial_extreme_absolute_level");
        }
    }
    Ok(())
}

/// tolerance for a Bollinger band level under a shift: level = mean ± m·sd; the mean moves by d
/// within tau*(M+|d|), the width is stable on the variance scale: |sd'² − sd²| <= tau (M+|d|)²
fn bb_shift_tol(m: f64, t: usize, scale: f64, w: &[f64]) -> f64 {
    let v = var_pop(w);
    let tolv = tau(t) * scale * scale;
    let (lo, hi) = sd_interval(v, 2.0 * tolv);
    tau(t) * scale + m.abs() * (hi - lo) + 8.0 * ulp(scale * m.abs().max(1.0))
}

const ALLK: [Kind; 21] = [
    Kind::Sma, Kind::Ema, Kind::Wma, Kind::Min, Kind::Max, Kind::Sd, Kind::Mad, Kind::Tr, Kind::Atr, Kind::Macd, Kind::Bb, Kind::Kc, Kind::Ce,
    Kind::FastStoch, Kind::SlowStoch, Kind::Roc, Kind::Er, Kind::Ppo, Kind::Cci, Kind::Mfi, Kind::Obv,
];
const SHIFTK: [Kind; 14] = [Kind::Sma, Kind::Ema, Kind::Wma, Kind::Min, Kind::Max, Kind::Sd, Kind::Mad, Kind::Tr, Kind::Atr, Kind::Macd, Kind::Bb, Kind::Kc, Kind::Ce, Kind::FastStoch];

fn strategy(forced_k: Option<i32>) -> BoxedStrategy<Case> {
    // stream lengths scale with the window so that large periods fill and wrap
    let len_for = |cfg: &Cfg| (3 * cfg.n() + 60).max(200);
    let pow2 = cfg_among(&ALLK, 600, multiplier_any)
        .prop_flat_map(move |cfg| {
            let l = len_for(&cfg);
            (Just(cfg), any::<bool>(), bar_stream(true, 1, l), match forced_k {
                Some(k) => Just(k).boxed(),
                None => (-40i32..=40).boxed(),
            })
        })
        .prop_map(|(cfg, scalar, s, k)| Case { cfg, scalar, bars: s.bars, tr: Tr::Pow2(k) });
    if forced_k.is_some() {
        return pow2.boxed();
    }
    let scale = cfg_among(&ALLK, 600, multiplier_any)
        .prop_flat_map(move |cfg| {
            let l = len_for(&cfg);
            (Just(cfg), any::<bool>(), bar_stream(true, 1, l), -4.0f64..4.0)
        })
        .prop_map(|(cfg, scalar, s, e)| Case { cfg, scalar, bars: s.bars, tr: Tr::Scale(X(10f64.powf(e))) });
    let shift = cfg_among(&SHIFTK, 1100, multiplier_any)
        .prop_flat_map(move |cfg| {
            let l = len_for(&cfg);
            (Just(cfg), any::<bool>(), prop_oneof![bar_stream(true, 1, l), bar_stream(false, 1, l)], 0.0f64..1.0, any::<bool>())
        })
        .prop_map(|(cfg, scalar, s, u, neg)| {
            let mn = s.bars.iter().map(|b| b.l).fold(f64::INFINITY, f64::min);
            let mx = s.bars.iter().map(|b| b.h).fold(0.0f64, f64::max);
            let d = if neg { -0.9 * mn * u } else { mx * 10f64.powf(-3.0 + 6.0 * u) };
            Case { cfg, scalar, bars: s.bars, tr: Tr::Shift(X(if d.is_finite() { d } else { 1.0 })) }
        });
    let mirror = (period(1100), stream(Domain::AnySign, 1, 300)).prop_flat_map(|(n, _)| (Just(n), stream(Domain::AnySign, 1, 3 * n + 60))).prop_map(|(n, s)| Case {
        cfg: Cfg { kind: Kind::Max, p: vec![n], m: X(0.0) },
        scalar: true,
        bars: s.vals.iter().map(|&x| RawBar::flat(x, 0.0)).collect(),
        tr: Tr::Mirror,
    });
    prop_oneof![4 => pow2, 3 => scale, 3 => shift, 1 => mirror].boxed()
}

pub fn run(g: &mut Global) {
    g.rule = "random: proptest twin runs on x and T(x) compared after every input; T in {scale by 2^k (k in -40..=40; every k visited in the thorough tier), scale by 10^U(-4,4), shift by d with -0.9*min <= d <= 1000*max, mirror}; positive grid-valued streams / valid bars (volume unscaled), periods to 600 (1100 for the shift and mirror relations), all indicators except RSI. Relations: price-valued outputs scale with the factor, dimensionless ones are unchanged (1e-12 relative for 2^k, 1e-9 otherwise, on steps with condition number <= 1e5 and unambiguous ties); under a shift SMA/EMA/WMA/band levels move by d within tau(t)*(M+|d|), MIN/MAX move exactly, SD (variance scale), MAD, TR, ATR, MACD are unchanged within tau(t)*(M+|d|), FAST_STOCH within 1e-7 where (M+|d|)/range <= 1e5; Maximum(x) = -Minimum(-x) exactly. Non-trivial = the transformation is not the identity and at least one comparison was made; sub-class: absolute price level after transformation < 1e-6 or > 1e9; distinct by hash of (kind, parameters, path, transformation, inputs).".into();
    g.assumptions = vec![
        "RSI is excluded (fixed 0.1 seed), as the property states".into(),
        "arbitrary-factor relations for dimensionless outputs are checked only where every comparison the implementation makes (flat-window test, consecutive closes for OBV, consecutive typical prices for MFI) is exactly equal or separated by >= 1e-9 relative".into(),
    ];
    g.random("random", g.tier.pick(300000, 3000000), &|| strategy(None), &check);
    // identity events (tele.rs): at one or two steps the instance is replaced by its clone, by a used instance
    // (same or longer periods) that clone_from()s it, or by its serde round trip; nothing may change
    // reset() of both twins mid-stream (with or without identity events): the stretch after it is in the same
    // transformed unit as before, but whatever reset() forgot to clear was accumulated at the old level
    g.random("resets", g.tier.pick(60000, 500000), &|| crate::tele::wrap_resets(strategy(None)), &|t: &crate::tele::TCase<Case>, ctx: &mut Ctx| crate::tele::check_wrapped(t, ctx, t.case.bars.len(), t.case.cfg.n(), check));
    g.random("events", g.tier.pick(100000, 800000), &|| crate::tele::wrap(strategy(None)), &|t: &crate::tele::TCase<Case>, ctx: &mut Ctx| crate::tele::check_wrapped(t, ctx, t.case.bars.len(), t.case.cfg.n(), check));
    if g.tier == Tier::Thorough {
        // every k in -40..=40 visited
        for k in -40i32..=40 {
            g.random(&format!("pow2_k{}", k), 3200, &move || strategy(Some(k)), &check);
        }
    }
}
