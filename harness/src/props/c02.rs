//! C02 — EMA recursion and everything wired from it follow the documented definition.

use crate::adapter::{Ind, Kind, RawBar};
use crate::dd::DD;
use crate::fw::*;
use crate::gen::*;
use crate::refs::*;
use proptest::prelude::*;
use serde::{Deserialize, Serialize};

#[derive(Clone, Debug, Serialize, Deserialize)]
pub struct Case {
    pub cfg: Cfg,
    /// true: feed xs through Next<f64>; false: feed bars through Next<&T>
    pub scalar: bool,
    pub xs: Vec<X>,
    pub bars: Vec<RawBar>,
}

fn harness_fail(msg: &str) -> Failure {
    Failure { signature: "C02:harness".into(), detail: format!("HARNESS {}", msg) }
}

/// a case whose indicator is built with Default::default(); its cfg holds the documented default parameters
#[derive(Clone, Debug, Serialize, Deserialize)]
pub struct DCase {
    pub case: Case,
}

pub fn check(c: &Case, ctx: &mut Ctx) -> Result<(), Failure> {
    check_with(c, ctx, false)
}

pub fn check_with(c: &Case, ctx: &mut Ctx, via_default: bool) -> Result<(), Failure> {
    let mut ind = if via_default { Ind::default_of(c.cfg.kind) } else { Ind::build(c.cfg.kind, &c.cfg.params()).map_err(|_| harness_fail("build"))? };
    check_on(c, ctx, &mut ind)
}

/// a case with reset() calls: `resets[j]` = number of inputs fed before the j-th reset. Each stretch between
/// resets is judged as a stream of its own (t counts inputs since the reset, as the property defines it) on the
/// *same* instance.
#[derive(Clone, Debug, Serialize, Deserialize)]
pub struct RCase {
    pub case: Case,
    pub resets: Vec<usize>,
}

pub fn check_resets(r: &RCase, ctx: &mut Ctx) -> Result<(), Failure> {
    let c = &r.case;
    let mut ind = Ind::build(c.cfg.kind, &c.cfg.params()).map_err(|_| Failure { signature: "C02:harness".into(), detail: "HARNESS build".into() })?;
    
    let len = if c.scalar { c.xs.len() } else { c.bars.len() };
    let mut cuts: Vec<usize> = r.resets.iter().copied().filter(|&x| x > 0 && x < len).collect();
    cuts.sort_unstable();
    cuts.dedup();
    cuts.push(len);
    let mut a = 0usize;
    for (j, &b) in cuts.iter().enumerate() {
        if j > 0 {
            ind.reset();
            
            ctx.label("segments_after_reset");
        }
        let mut seg = c.clone();
        if c.scalar {
            seg.xs = c.xs[a..b].to_vec();
        } else {
            seg.bars = c.bars[a..b].to_vec();
        }
        // only the last stretch (always one after a reset) is counted, so that a case counts once
        let was = ctx.counting;
        ctx.counting = was && j + 1 == cuts.len();
        let res = check_on(&seg, ctx, &mut ind);
        ctx.counting = was;
        res?;
        a = b;
    }
    Ok(())
}

pub fn check_on(c: &Case, ctx: &mut Ctx, ind: &mut Ind) -> Result<(), Failure> {
    let k = c.cfg.kind;
    let p = c.cfg.params();
    let n = c.cfg.n();
    let m = p.m;
    let len = if c.scalar { c.xs.len() } else { c.bars.len() };
    let mut big = 0.0f64;
    let mut fp = Fp::new("C02");
    c.cfg.fp(&mut fp);
    fp.u(c.scalar as u64);
    // reference state
    let mut e1 = EmaRef::new(n.max(1));
    let mut e2 = EmaRef::new(p.p[1].max(1));
    let mut e3 = EmaRef::new(p.p[2].max(1));
    let mut atr = EmaRef::new(n.max(1));
    let mut tr = TrRef::default();
    let mut highs: Vec<f64> = vec![];
    let mut lows: Vec<f64> = vec![];
    let mut xs_dd: Vec<DD> = vec![];
    let mut distinct = false;
    let mut branches = [false; 4];
    let mut first_in: Option<[u64; 3]> = None;
    let name = k.name();
    let mscale = if k.has_mult() { m.abs().max(1.0) } else { 1.0 };
    for i in 0..len {
        crate::tele::step(ind, &c.cfg);
        let (out, bar, x) = if c.scalar {
            let x = c.xs[i].0;
            fp.f(x);
            big = big.max(x.abs());
            // mixed use of both paths on one instance: a flat bar stands for the scalar (not where the typical
            // price (x+x+x)/3 of such a bar is itself not representable)
            let via_bar = crate::tele::scalar_here() && x.abs() < 5.0e307;
            (if via_bar { ind.next_bar(&RawBar::flat(x, 0.0)) } else { ind.next_scalar(x) }, RawBar::flat(x, 0.0), x)
        } else {
            let mut b = c.bars[i];
            // mixed use of both paths on one instance (tele.rs): this step goes through next(close); the
            // reference sees the one-price bar that the scalar path stands for
            let sc = k.scalar() && crate::tele::scalar_here();
            if sc {
                b = RawBar::flat(b.c, b.v);
            }
            fp.f(b.h);
            fp.f(b.l);
            fp.f(b.c);
            big = big.max(b.max_abs_price());
            (if sc { ind.next_scalar(b.c) } else { ind.next_bar(&b) }, b, b.c)
        };
        let key = [bar.h.to_bits(), bar.l.to_bits(), bar.c.to_bits()];
        match first_in {
            None => first_in = Some(key),
            Some(f) => {
                if f != key {
                    distinct = true
                }
            }
        }
        let t = i + 1;
        let tol = tau(t) * big * mscale + tol_floor(n.max(p.p[1]).max(p.p[2])) * mscale;
        // reference outputs
        let mut refs: Vec<(&'static str, DD)> = Vec::with_capacity(3);
        if !c.scalar {
            branches[TrRef::branch(tr.prev_close, &bar)] = true;
        }
        match k {
            Kind::Ema => {
                let r = e1.next(DD::from(x));
                xs_dd.push(DD::from(x));
                refs.push(("ema", r));
            }
            Kind::Tr => {
                let r = if c.scalar { tr.next_scalar(x) } else { tr.next_bar(&bar) };
                refs.push(("tr", r));
            }
            Kind::Atr => {
                let r = if c.scalar { tr.next_scalar(x) } else { tr.next_bar(&bar) };
                refs.push(("atr", atr.next(r)));
            }
            Kind::Macd => {
                let f = e1.next(DD::from(x));
                let s = e2.next(DD::from(x));
                let macd = f.sub(s);
                let sig = e3.next(macd);
                refs.push(("macd", macd));
                refs.push(("signal", sig));
                refs.push(("histogram", macd.sub(sig)));
            }
            Kind::Kc => {
                let (price, trv) = if c.scalar { (DD::from(x), tr.next_scalar(x)) } else { (tp_dd(&bar), tr.next_bar(&bar)) };
                let avg = e1.next(price);
                let a = atr.next(trv).mul_f(m);
                refs.push(("average", avg));
                refs.push(("upper", avg.add(a)));
                refs.push(("lower", avg.sub(a)));
            }
            Kind::Ce => {
                let trv = tr.next_bar(&bar);
                let a = atr.next(trv).mul_f(m);
                highs.push(bar.h);
                lows.push(bar.l);
                let w0 = t - t.min(n);
                let mx = wmax(&highs[w0..]);
                let mn = wmin(&lows[w0..]);
                refs.push(("long", DD::from(mx).sub(a)));
                refs.push(("short", DD::from(mn).add(a)));
            }
            _ => unreachable!("HARNESS: kind not in C02"),
        }
        for (j, (field, r)) in refs.iter().enumerate() {
            if !r.to_f64().is_finite() {
                // the documented value itself is not representable (huge unit times multiplier): no claim
                ctx.label("reference_not_finite_skipped");
                continue;
            }
            let got = out.v[j];
            let e = err(got, *r);
            let cls = format!("{}.{}", name, field);
            ctx.worst(&cls, if tol > 0.0 { e / tol } else if e == 0.0 { 0.0 } else { f64::INFINITY });
            if !(e <= tol) {
                ctx.fail(
                    format!("C02:{}:{}:mismatch", name, field),
                    format!(
                        "{} ({} path) step {}: {} = {:e}, documented formula gives {:e}; |err| {:e} > tol {:e} (M = {:e}); input {:?}",
                        c.cfg.tag(), if c.scalar { "scalar" } else { "bar" }, i, field, got, r.to_f64(), e, tol, big,
                        if c.scalar { vec![x] } else { vec![bar.h, bar.l, bar.c] }
                    ),
                )?;
            }
        }
    }
    // self-check of the EMA reference against its closed form (harness integrity, not a claim about ta)
    if k == Kind::Ema && !xs_dd.is_empty() && xs_dd.len() <= 4000 {
        let t = xs_dd.len();
        for s in 1..=16usize {
            let q = (t * s + 15) / 16;
            let q = q.clamp(1, t);
            let mut e = EmaRef::new(n);
            let mut last = DD::ZERO;
            for x in &xs_dd[..q] {
                last = e.next(*x);
            }
            let cf = ema_closed_form(n, &xs_dd[..q]);
            let d = last.sub(cf).abs().to_f64();
            if !(d <= 1e-24 * big * (q as f64) + 1e-300) {
                panic!("HARNESS: EMA reference recursion and closed form disagree: {:e} vs {:e} (n={}, t={})", last.to_f64(), cf.to_f64(), n, q);
            }
        }
        ctx.label("ema_closed_form_crosschecked");
    }
    ctx.label(&format!("kind:{}:{}", name, if c.scalar { "scalar" } else { "bar" }));
    let nb = branches[..3].iter().filter(|&&b| b).count();
    let nt = len >= 3 && distinct && (c.scalar || nb >= 2);
    if nt {
        ctx.nontrivial(fp);
        ctx.label("nontrivial");
    }
    if !c.scalar {
        ctx.label(&format!("tr_branches_hit:{}", nb));
    }
    Ok(())
}

const SALPHA: [f64; 6] = [-3.0, -1.0, 0.0, 0.1, 2.0, 10.0];
fn balpha() -> [RawBar; 7] {
    [
        RawBar::hlcv(10.0, 8.0, 9.0, 1.0),   // ordinary bar
        RawBar::hlcv(14.0, 13.0, 13.5, 1.0), // gaps up from most others
        RawBar::hlcv(5.0, 4.0, 4.5, 1.0),    // gaps down
        RawBar::hlcv(10.0, 8.0, 10.0, 1.0),  // close at high
        RawBar::hlcv(10.0, 8.0, 8.0, 1.0),   // close at low
        RawBar::hlcv(9.0, 9.0, 9.0, 1.0),    // zero-range bar
        RawBar::hlcv(12.0, 6.0, 7.1, 1.0),   // wide bar, non-dyadic close
    ]
}

fn scalar_cfgs() -> Vec<Cfg> {
    let mut v = vec![];
    for n in 1..=5usize {
        v.push(Cfg { kind: Kind::Ema, p: vec![n], m: X(0.0) });
        v.push(Cfg { kind: Kind::Atr, p: vec![n], m: X(0.0) });
        v.push(Cfg { kind: Kind::Kc, p: vec![n], m: X(2.0) });
        v.push(Cfg { kind: Kind::Kc, p: vec![n], m: X(-0.5) });
    }
    v.push(Cfg { kind: Kind::Tr, p: vec![], m: X(0.0) });
    for f in 1..=3usize {
        for s in 1..=3usize {
            for g in 1..=3usize {
                v.push(Cfg { kind: Kind::Macd, p: vec![f, s, g], m: X(0.0) });
            }
        }
    }
    v
}
fn bar_cfgs() -> Vec<Cfg> {
    let mut v = vec![Cfg { kind: Kind::Tr, p: vec![], m: X(0.0) }];
    for n in 1..=5usize {
        v.push(Cfg { kind: Kind::Atr, p: vec![n], m: X(0.0) });
        v.push(Cfg { kind: Kind::Kc, p: vec![n], m: X(2.0) });
        v.push(Cfg { kind: Kind::Ce, p: vec![n], m: X(3.0) });
    }
    v
}

const SK: [Kind; 5] = [Kind::Ema, Kind::Tr, Kind::Atr, Kind::Macd, Kind::Kc];
const BK: [Kind; 4] = [Kind::Tr, Kind::Atr, Kind::Kc, Kind::Ce];

fn strategy(tier: Tier) -> BoxedStrategy<Case> {
    let maxlen = tier.pick(300usize, 1500usize);
    prop_oneof![
        8 => cfg_among(&SK, 1024, multiplier_any).prop_flat_map(move |cfg| (Just(cfg), multi_stream(Domain::AnySign, 1, maxlen))).prop_map(|(cfg, s)| Case {
            cfg,
            scalar: true,
            xs: xs(&s.vals),
            bars: vec![]
        }),
        // prices in an enormous unit (up to 5e307): intermediate doubling / scaling must not overflow
        1 => cfg_among(&SK, 1024, || prop_oneof![Just(0.0), Just(1.0), Just(-0.5), Just(0.25)].boxed()).prop_flat_map(move |cfg| (Just(cfg), prop_oneof![stream(Domain::Huge, 1, maxlen), stream(Domain::HugeScalar, 1, maxlen)])).prop_map(|(cfg, s)| Case {
            cfg,
            scalar: true,
            xs: xs(&s.vals),
            bars: vec![]
        }),
        1 => cfg_among(&BK, 1024, || prop_oneof![Just(0.0), Just(1.0), Just(-0.5), Just(0.25)].boxed()).prop_flat_map(move |cfg| { let ml = if cfg.kind == Kind::Ce { maxlen.max(3 * cfg.n() + 20) } else { maxlen }; (Just(cfg), bar_stream_dom(Domain::Huge, 1, ml)) }).prop_map(|(cfg, s)| Case { cfg, scalar: false, xs: vec![], bars: s.bars }),
        // prices around 1e-305: products and differences are subnormal, tau*M is still ~1e-317
        1 => cfg_among(&SK, 1024, multiplier_any).prop_flat_map(move |cfg| (Just(cfg), stream(Domain::TinyAnySign, 1, maxlen))).prop_map(|(cfg, s)| Case {
            cfg,
            scalar: true,
            xs: xs(&s.vals),
            bars: vec![]
        }),
        8 => cfg_among(&BK, 1024, multiplier_any).prop_flat_map(move |cfg| { let ml = if cfg.kind == Kind::Ce { maxlen.max(3 * cfg.n() + 20) } else { maxlen }; (Just(cfg), prop_oneof![bar_stream(false, 1, ml), bar_stream(true, 1, ml)]) }).prop_map(|(cfg, s)| Case { cfg, scalar: false, xs: vec![], bars: s.bars }),
        // bars as a user type may deliver them: the documented formulas are defined for any three finite numbers,
        // so crossed bars (high < low) and closes outside [low, high] are in the domain ("every finite stream of
        // ... bars"); only DataItem's builder insists on consistency
        2 => cfg_among(&BK, 300, multiplier_any).prop_flat_map(move |cfg| (Just(cfg), prop_oneof![bar_stream(false, 1, maxlen), bar_stream(true, 1, maxlen)], proptest::collection::vec(0u8..10, 61))).prop_map(|(cfg, s, mask)| {
            let bars = s.bars.iter().enumerate().map(|(i, b)| {
                let mut b = *b;
                match mask[i % 61] {
                    5 => std::mem::swap(&mut b.h, &mut b.l),
                    6 => b.c = b.h + (b.h - b.l) * 0.5 + b.h.abs() * 0.01,
                    7 => b.c = b.l - (b.h - b.l) * 0.5 - b.l.abs() * 0.01,
                    8 => { std::mem::swap(&mut b.h, &mut b.l); b.c = b.o; }
                    9 => { let t = b.h; b.h = b.c; b.c = t; }
                    _ => {}
                }
                b
            }).collect();
            Case { cfg, scalar: false, xs: vec![], bars }
        }),
    ]
    .boxed()
}
fn reset_strategy() -> BoxedStrategy<RCase> {
    prop_oneof![
        cfg_among(&SK, 40, multiplier_any)
            .prop_flat_map(|cfg| {
                let n = cfg.n();
                (Just(cfg), multi_stream(Domain::AnySign, 4 * n + 10, 8 * n + 60), proptest::collection::vec(any::<u16>(), 1..4))
            })
            .prop_map(|(cfg, s, pk)| {
                let resets = crate::hist::reset_positions(cfg.n(), s.vals.len(), &pk);
                RCase { case: Case { cfg, scalar: true, xs: xs(&s.vals), bars: vec![] }, resets }
            }),
        cfg_among(&BK, 40, multiplier_any)
            .prop_flat_map(|cfg| {
                let n = cfg.n();
                (Just(cfg), prop_oneof![bar_stream(false, 4 * n + 10, 8 * n + 60), bar_stream(true, 4 * n + 10, 8 * n + 60)], proptest::collection::vec(any::<u16>(), 1..4))
            })
            .prop_map(|(cfg, s, pk)| {
                let resets = crate::hist::reset_positions(cfg.n(), s.bars.len(), &pk);
                RCase { case: Case { cfg, scalar: false, xs: vec![], bars: s.bars }, resets }
            }),
    ]
    .boxed()
}
fn long_strategy() -> BoxedStrategy<Case> {
    prop_oneof![
        cfg_among(&SK, 1024, multiplier_any).prop_flat_map(move |cfg| (Just(cfg), stream(Domain::AnySign, 10_000, 20_000))).prop_map(|(cfg, s)| Case {
            cfg,
            scalar: true,
            xs: xs(&s.vals),
            bars: vec![]
        }),
        cfg_among(&BK, 1024, multiplier_any).prop_flat_map(move |cfg| (Just(cfg), bar_stream(false, 10_000, 20_000))).prop_map(|(cfg, s)| Case { cfg, scalar: false, xs: vec![], bars: s.bars }),
    ]
    .boxed()
}

pub fn run(g: &mut Global) {
    g.rule = "exhaustive: scalar sequences over {-3,-1,0,0.1,2,10} for EMA/ATR/KC(two multipliers) with periods 1..=5, TR, and MACD over all (fast,slow,signal) in {1,2,3}^3; bar sequences over a 7-bar alphabet realising every TrueRange branch for TR, ATR, KC, CE with periods 1..=5; random: proptest cases with periods up to 1024, independent MACD triples, multipliers of any sign, multi-regime scalar streams of any sign, valid bars, or bars as a user type may deliver them (crossed high/low, close outside the range). Every prefix compared with a double-double evaluation of the documented recursion over the whole history (EMA reference cross-checked against its closed form). Non-trivial = at least 3 inputs, at least two distinct inputs and, for bar input, at least two different TrueRange branches were the maximum; distinct by hash of (kind, parameters, path, inputs).".into();
    g.assumptions = vec![
        "reference = double-double recursion with alpha = 2/(n+1) exact".into(),
        "tolerance tau(t)*M, times max(1,|multiplier|) for KC/CE levels (rounding of width*multiplier is relative to that product)".into(),
        "M = largest |input| (bars: over high, low, close)".into(),
    ];
    // instances obtained from Default::default() follow the same formulas with the documented default parameters
    // (a Default assembled from component defaults can report one period and compute with another)
    let seedd = g.seed;
    let nsk = SK.len() as u64;
    let nbk = BK.len() as u64;
    g.exhaustive(
        "defaults",
        (nsk + nbk) * 16,
        &move |i| {
            let j = i % (nsk + nbk);
            let r = i / (nsk + nbk);
            let mut gen = crate::props::c13::Gen::new(seedd ^ (i + 1).wrapping_mul(0x9E3779B97F4A7C15), [0usize, 3, 1, 4][(r % 4) as usize], 3.7, 5);
            if j < nsk {
                DCase { case: Case { cfg: crate::hist::cfg_default(SK[j as usize]), scalar: true, xs: (0..200).map(|_| X(gen.next())).collect(), bars: vec![] } }
            } else {
                DCase { case: Case { cfg: crate::hist::cfg_default(BK[(j - nsk) as usize]), scalar: false, xs: vec![], bars: (0..200).map(|_| gen.bar()).collect() } }
            }
        },
        &|d: &DCase, ctx: &mut Ctx| check_with(&d.case, ctx, true),
    );
    let sc = scalar_cfgs();
    let bc = bar_cfgs();
    let d1 = g.tier.pick(6usize, 8usize);
    let per = ipow(6, d1);
    let scn = sc.len() as u64;
    g.exhaustive(
        "enum_scalar",
        per * scn,
        &move |i| {
            let cfg = sc[(i / per) as usize].clone();
            let d = digits(i % per, 6, d1);
            Case { cfg, scalar: true, xs: d.iter().map(|&j| X(SALPHA[j])).collect(), bars: vec![] }
        },
        &check,
    );
    let d2 = g.tier.pick(5usize, 6usize);
    let perb = ipow(7, d2);
    let bcn = bc.len() as u64;
    let ba = balpha();
    g.exhaustive(
        "enum_bars",
        perb * bcn,
        &move |i| {
            let cfg = bc[(i / perb) as usize].clone();
            let d = digits(i % perb, 7, d2);
            Case { cfg, scalar: false, xs: vec![], bars: d.iter().map(|&j| ba[j]).collect() }
        },
        &check,
    );
    let tier = g.tier;
    g.random("random", g.tier.pick(120000, 600000), &move || strategy(tier), &check);
    g.random("long", g.tier.pick(64, 800), &long_strategy, &check);
    // window-less period arguments at the top of the usize range (2^31, 2^32, 2^32+1, 2^33, 2^40, 2^53+1, 2^63,
    // MAX-1, MAX): valid configurations like any other — a period converted through a narrower integer type or
    // rounded on its way to the smoothing factor builds without complaint and computes something else
    const BP: [usize; 9] = [1 << 31, 1 << 32, (1 << 32) + 1, 1 << 33, 1 << 40, (1 << 53) + 1, usize::MAX / 2 + 1, usize::MAX - 1, usize::MAX];
    g.exhaustive(
        "boundary_periods",
        9 * 6 * 2,
        &|i| {
            let b = BP[(i % 9) as usize];
            let cfg = match (i / 9) % 6 {
                0 => Cfg { kind: Kind::Ema, p: vec![b], m: X(0.0) },
                1 => Cfg { kind: Kind::Atr, p: vec![b], m: X(0.0) },
                2 => Cfg { kind: Kind::Kc, p: vec![b], m: X(2.0) },
                3 => Cfg { kind: Kind::Macd, p: vec![b, 26, 9], m: X(0.0) },
                4 => Cfg { kind: Kind::Macd, p: vec![12, b, 9], m: X(0.0) },
                _ => Cfg { kind: Kind::Macd, p: vec![12, 26, b], m: X(0.0) },
            };
            let vals: Vec<f64> = (0..60).map(|j| 100.0 + if j % 2 == 0 { 10.0 } else { -7.5 } + j as f64 * 0.37).collect();
            if i / 54 == 0 {
                Case { cfg, scalar: true, xs: xs(&vals), bars: vec![] }
            } else {
                Case { cfg, scalar: false, xs: vec![], bars: vals.iter().map(|&x| RawBar { o: x, h: x + 2.0, l: x - 1.5, c: x + 0.5, v: 1.0 }).collect() }
            }
        },
        &check,
    );
    // exact arithmetic: periods 1, 3, 7, 15 (alpha = 1, 1/2, 1/4, 1/8) on small-integer prices, where two different
    // averages become bit-equal in the middle of a stream (a shortcut keyed to "fast == slow" or "value unchanged"
    // fires there and nowhere on continuous data); every sequence of 6 prices over {1,2,3,4}
    const DY: [usize; 4] = [1, 3, 7, 15];
    g.exhaustive(
        "dyadic_exact",
        (64 + 4 + 4) * 4096,
        &|i| {
            let seq = digits(i % 4096, 4, 6);
            let r = (i / 4096) as usize;
            let cfg = if r < 64 {
                Cfg { kind: Kind::Macd, p: vec![DY[r % 4], DY[(r / 4) % 4], DY[r / 16]], m: X(0.0) }
            } else if r < 68 {
                Cfg { kind: Kind::Ema, p: vec![DY[r - 64]], m: X(0.0) }
            } else {
                Cfg { kind: Kind::Kc, p: vec![DY[r - 68]], m: X(2.0) }
            };
            // the sequence twice: the second pass starts from a non-trivial state
            let xs: Vec<X> = seq.iter().chain(seq.iter()).map(|&d| X(1.0 + d as f64)).collect();
            Case { cfg, scalar: true, xs, bars: vec![] }
        },
        &check,
    );
    // identity events (tele.rs): at one or two steps the instance is replaced by its clone, by a used instance
    // (same or longer periods) that clone_from()s it, or by its serde round trip; nothing may change
    g.random("events", g.tier.pick(12000, 100000), &move || crate::tele::wrap(strategy(tier)), &|t: &crate::tele::TCase<Case>, ctx: &mut Ctx| crate::tele::check_wrapped(t, ctx, if t.case.scalar { t.case.xs.len() } else { t.case.bars.len() }, t.case.cfg.n(), check));
    // the same formulas after reset(): t counts inputs since the reset; resets at multiples of the period, next to
    // them, anywhere, and a second reset before the window refilled
    g.random("resets", g.tier.pick(20000, 150000), &reset_strategy, &check_resets);
    // sleep and wake: a long run of identical bars (ATR and the other averages of movement decay through the
    // subnormal range to zero), then activity again
    let seed = g.seed;
    let swk: Vec<(Kind, usize, bool)> = vec![(Kind::Ema, 3, true), (Kind::Atr, 2, false), (Kind::Atr, 3, true), (Kind::Atr, 14, false), (Kind::Kc, 3, false), (Kind::Kc, 14, true), (Kind::Ce, 3, false), (Kind::Ce, 14, false), (Kind::Macd, 3, true), (Kind::Tr, 1, false)];
    let nsw = swk.len() as u64;
    g.exhaustive(
        "sleep_wake",
        nsw * 8,
        &move |i| {
            let (kind, n, scalar) = swk[(i % nsw) as usize];
            let flat = crate::hist::SLEEP_LENS[(i / nsw) as usize % 8];
            let bars = crate::hist::sleep_wake_bars(seed ^ i.wrapping_mul(0x9E3779B97F4A7C15), flat, [100.0, 0.37, 1e4][(i % 3) as usize]);
            let cfg = crate::hist::cfg_small(kind, n);
            if scalar && kind.scalar() {
                Case { cfg, scalar: true, xs: bars.iter().map(|b| X(b.c)).collect(), bars: vec![] }
            } else {
                Case { cfg, scalar: false, xs: vec![], bars }
            }
        },
        &check,
    );
    // the wake-up bar placed on, just before and just after the first step at which ATR(n) is subnormal
    // (the averages of movement pass through the subnormal range only once, for a few dozen steps)
    let wk = [(Kind::Atr, false), (Kind::Atr, true), (Kind::Kc, false), (Kind::Ce, false)];
    g.exhaustive(
        "wake_at_subnormal",
        4 * 4 * 10,
        &move |i| {
            let (kind, scalar) = wk[(i % 4) as usize];
            let n = [2usize, 3, 5, 14][((i / 4) % 4) as usize];
            let d = crate::hist::WAKE_OFFSETS[(i / 16) as usize % 10];
            let bars = crate::hist::sleep_wake_at_subnormal(seed ^ (i % 16).wrapping_mul(0x9E3779B97F4A7C15), 100.0, n, d);
            let cfg = crate::hist::cfg_small(kind, n);
            if scalar {
                Case { cfg, scalar: true, xs: bars.iter().map(|b| X(b.c)).collect(), bars: vec![] }
            } else {
                Case { cfg, scalar: false, xs: vec![], bars }
            }
        },
        &check,
    );
    // ultra-long single-instance streams: beyond 2^16 inputs for every configuration, beyond 2^24 for a few
    let lc: Vec<(Cfg, bool)> = vec![
        (Cfg { kind: Kind::Ema, p: vec![3], m: X(0.0) }, true),
        (Cfg { kind: Kind::Ema, p: vec![14], m: X(0.0) }, true),
        (Cfg { kind: Kind::Atr, p: vec![5], m: X(0.0) }, false),
        (Cfg { kind: Kind::Atr, p: vec![14], m: X(0.0) }, true),
        (Cfg { kind: Kind::Macd, p: vec![12, 26, 9], m: X(0.0) }, true),
        (Cfg { kind: Kind::Macd, p: vec![3, 2, 2], m: X(0.0) }, true),
        (Cfg { kind: Kind::Kc, p: vec![10], m: X(2.0) }, false),
        (Cfg { kind: Kind::Kc, p: vec![4], m: X(1.5) }, true),
        (Cfg { kind: Kind::Ce, p: vec![22], m: X(3.0) }, false),
        (Cfg { kind: Kind::Ce, p: vec![5], m: X(2.0) }, false),
        (Cfg { kind: Kind::Tr, p: vec![], m: X(0.0) }, false),
    ];
    let nl = lc.len() as u64;
    let l16 = g.tier.pick(70_000usize, 300_000usize);
    let lc1 = lc.clone();
    g.exhaustive("ultra_2^16", nl * g.tier.pick(2, 5), &move |i| crate::props::longrun::grid_case(&lc1, i, seed, l16), &|c, ctx| crate::props::longrun::check_long(c, ctx, "C02"));
    let l24 = (1usize << 24) + 5000;
    g.exhaustive("ultra_2^24", g.tier.pick(4, nl * 2), &move |i| crate::props::longrun::grid_case(&lc, i * 3 + 1, seed ^ 0x24, l24), &|c, ctx| crate::props::longrun::check_long(c, ctx, "C02"));
    if g.tier == Tier::Thorough {
        g.fuzz_stage("ops_value", Some(1), 600_000, "random", &|b| crate::fuzzdec::decode_c02(b), &check);
    }
}
