//! C17 — windowed indicators forget: only the last n (or n+1) inputs matter.

use crate::adapter::{Ind, Kind, RawBar};
use crate::dd::DD;
use crate::fw::*;
use crate::gen::*;
use crate::hist::cfg_small;
use crate::refs::*;
use proptest::collection::vec;
use proptest::prelude::*;
use serde::{Deserialize, Serialize};

pub const KINDS: [Kind; 12] = [Kind::Sma, Kind::Wma, Kind::Sd, Kind::Mad, Kind::Min, Kind::Max, Kind::FastStoch, Kind::Bb, Kind::Cci, Kind::Roc, Kind::Er, Kind::Mfi];

#[derive(Clone, Debug, Serialize, Deserialize)]
pub struct Case {
    pub cfg: Cfg,
    pub scalar: bool,
    pub prefix: Vec<RawBar>,
    pub suffix: Vec<RawBar>,
    /// an additional, very long prefix expanded from a seed (fed before `prefix`): (seed, length, regime, base)
    #[serde(default)]
    pub gen_prefix: Option<(u64, usize, usize, X)>,
}

pub fn check(c: &Case, ctx: &mut Ctx) -> Result<(), Failure> {
    let k = c.cfg.kind;
    let name = k.name();
    let p = c.cfg.params();
    let n = c.cfg.n();
    let m = p.m;
    let w = k.memory(n).expect("HARNESS: kind without finite memory in C17");
    let scalar = c.scalar && k.scalar();
    let mk = || Ind::build(k, &p).map_err(|_| Failure { signature: "C17:harness".into(), detail: "HARNESS build".into() });
    let mut a = mk()?;
    let mut b = mk()?;
    let mag = |bar: &RawBar| if scalar { bar.c.abs() } else if matches!(k, Kind::Min) { bar.l.abs() } else if matches!(k, Kind::Max) { bar.h.abs() } else { bar.max_abs_price() };
    let mut big = 0.0f64;
    let mut flow_big = 0.0f64;
    let mut prev: Option<RawBar> = None;
    let mut fp = Fp::new("C17");
    c.cfg.fp(&mut fp);
    fp.u(scalar as u64);
    let mut track = |bar: &RawBar, big: &mut f64, flow_big: &mut f64, prev: &mut Option<RawBar>| {
        *big = big.max(mag(bar));
        if let Some(pb) = prev {
            if crate::refs::may_flow(pb, bar) {
                *flow_big = flow_big.max((bar.tp() * bar.v).abs());
            }
        }
        *prev = Some(*bar);
    };
    if let Some((seed, len, regime, base)) = &c.gen_prefix {
        // regime >= 100 encodes a saw-tooth (regime 4) of period regime - 100
        let (rg, saw) = if *regime >= 100 { (4usize, *regime - 100) } else { (*regime, 2 + n) };
        let mut gen = crate::props::c13::Gen::new(*seed, rg, base.0, saw);
        fp.u(*seed);
        fp.u(*len as u64);
        for _ in 0..*len {
            let bar = gen.bar();
            crate::tele::step(&mut a, &c.cfg);
            if scalar || (k.scalar() && crate::tele::scalar_here()) {
                a.next_scalar(bar.c);
            } else {
                a.next_bar(&bar);
            }
            track(&bar, &mut big, &mut flow_big, &mut prev);
        }
    }
    for bar in &c.prefix {
        fp.f(bar.c);
        fp.f(bar.h);
        fp.f(bar.v);
        // "any history" includes reset() (only in the `resets` stage, tele.rs; never inside the compared suffix)
        if crate::tele::due_reset() {
            a.reset();
            ctx.label("reset_inside_prefix");
        }
        crate::tele::step(&mut a, &c.cfg);
        if scalar || (k.scalar() && crate::tele::scalar_here()) {
            a.next_scalar(bar.c);
        } else {
            a.next_bar(bar);
        }
        track(bar, &mut big, &mut flow_big, &mut prev);
    }
    fp.u(0xFEED);
    let (mut checked, mut ill) = (0u64, 0u64);
    let mut bhist: Vec<RawBar> = Vec::with_capacity(c.suffix.len());
    let mut bclose: Vec<f64> = Vec::with_capacity(c.suffix.len());
    for (j, bar) in c.suffix.iter().enumerate() {
        fp.f(bar.c);
        fp.f(bar.h);
        fp.f(bar.v);
        crate::tele::step(&mut a, &c.cfg);
        // mixed use of both paths (tele.rs): the same path for both twins at each suffix step
        let sc = scalar || (k.scalar() && crate::tele::scalar_here());
        let (oa, ob) = if sc { (a.next_scalar(bar.c), b.next_scalar(bar.c)) } else { (a.next_bar(bar), b.next_bar(bar)) };
        track(bar, &mut big, &mut flow_big, &mut prev);
        bhist.push(*bar);
        bclose.push(bar.c);
        if j + 1 < w {
            continue;
        }
        let t = c.gen_prefix.as_ref().map(|g| g.1).unwrap_or(0) + c.prefix.len() + j + 1;
        let tol = tau(t) * big;
        let mut bad: Option<String> = None;
        match k {
            Kind::Min | Kind::Max | Kind::FastStoch => {
                checked += 1;
                if !(oa.x() == ob.x() || (oa.x().is_nan() && ob.x().is_nan())) {
                    bad = Some(format!("{:e} after the full history, {:e} from the bare suffix (must be exactly equal)", oa.x(), ob.x()));
                }
            }
            Kind::Sma | Kind::Wma | Kind::Mad => {
                checked += 1;
                let e = (oa.x() - ob.x()).abs();
                ctx.worst(name, e / tol);
                if !(e <= tol) {
                    bad = Some(format!("{:e} after the full history, {:e} from the bare suffix; |diff| {:e} > tau(t)*M = {:e}", oa.x(), ob.x(), e, tol));
                }
            }
            Kind::Sd => {
                checked += 1;
                let tolv = tau(t) * big * big;
                let e = (oa.x() * oa.x() - ob.x() * ob.x()).abs();
                ctx.worst(name, e / tolv);
                if !(e <= tolv) {
                    bad = Some(format!("sd {:e} after the full history, {:e} from the bare suffix; variances differ by {:e} > tau(t)*M^2 = {:e}", oa.x(), ob.x(), e, tolv));
                }
            }
            Kind::Bb => {
                checked += 1;
                let e = (oa.v[0] - ob.v[0]).abs();
                if !(e <= tol) {
                    bad = Some(format!("average {:e} vs {:e}; |diff| {:e} > {:e}", oa.v[0], ob.v[0], e, tol));
                }
                if m != 0.0 {
                    let tolv = tau(t) * big * big;
                    let sb = (ob.v[1] - ob.v[0]) / m;
                    let (lo, hi) = sd_interval(DD::prod(sb, sb), tolv);
                    let slack = 8.0 * ulp(oa.v[1].abs().max(oa.v[2].abs()).max(ob.v[1].abs())) / m.abs() + 4.0 * ulp(hi);
                    for hw in [(oa.v[1] - oa.v[0]) / m, (oa.v[0] - oa.v[2]) / m] {
                        if !(hw >= lo - slack && hw <= hi + slack) {
                            bad = Some(format!("half-width/multiplier {:e} after the full history vs {:e} from the bare suffix (allowed [{:e},{:e}] on the variance scale)", hw, sb, lo, hi));
                        }
                    }
                }
            }
            Kind::Roc | Kind::Er | Kind::Cci | Kind::Mfi => {
                let r: Option<(f64, f64)> = match k {
                    Kind::Roc => roc_ref(&bclose, n).map(|r| (r.c, 100.0)),
                    Kind::Er => er_ref(&bclose, n).map(|r| (r.c, 1.0)),
                    Kind::Cci => cci_ref(&bhist, n, big).map(|r| (r.c, 1.0 / 0.015)),
                    _ => {
                        // both runs take the same direction decisions on the same bars, but whether the window has
                        // any flow at all (the reference denominator) is decided here in exact arithmetic: a pair of
                        // typical prices that differ by less than the rounding of (h+l+c)/3 may be a tie for the
                        // implementation, the window then is degenerate (C08) and residue is all it returns —
                        // the taint rule of DESIGN section 3 applies to the gate, as in C03/C07/C13
                        let mr = mfi_ref(&bhist, n, crate::props::c03::SEP);
                        let den = mr.pmf.add(mr.nmf).to_f64();
                        if den > 0.0 && !mr.tainted {
                            Some((flow_big.max(mr.max_flow_in_window) / den, 100.0))
                        } else {
                            None
                        }
                    }
                };
                match r {
                    Some((cc, scale)) if cc <= 1e6 => {
                        checked += 1;
                        let tl = tau(t) * cc.max(1.0) * scale;
                        let e = (oa.x() - ob.x()).abs();
                        ctx.worst(name, e / tl);
                        if !(e <= tl) {
                            bad = Some(format!("{:e} after the full history, {:e} from the bare suffix; |diff| {:e} > tol {:e} (condition number {:e})", oa.x(), ob.x(), e, tl, cc));
                        }
                    }
                    _ => ill += 1,
                }
            }
            _ => unreachable!(),
        }
        if let Some(what) = bad {
            ctx.fail(
                format!("C17:{}:remembers", name),
                format!("{} ({} path): prefix of {} inputs (largest magnitude {:e}), suffix step {} (window needs {}): {}", c.cfg.tag(), if scalar { "scalar" } else { "bar" }, c.prefix.len(), big, j, w, what),
            )?;
        }
    }
    ctx.label(&format!("kind:{}", name));
    ctx.label_n("compared_steps", checked);
    ctx.label_n("skipped_illconditioned_or_degenerate", ill);
    let smax = c.suffix.iter().map(|b| mag(b)).fold(0.0f64, f64::max);
    let pmax = c.prefix.iter().map(|b| mag(b)).fold(0.0f64, f64::max);
    let pmin = c.prefix.iter().map(|b| b.l).fold(f64::INFINITY, f64::min);
    let smin = c.suffix.iter().map(|b| b.l).fold(f64::INFINITY, f64::min);
    if (!c.prefix.is_empty() || c.gen_prefix.is_some()) && checked > 0 && (pmax >= 1e3 * smax || pmax > smax || pmin < smin || c.gen_prefix.is_some()) {
        ctx.nontrivial(fp);
        ctx.label("nontrivial");
        if c.suffix.len() == w {
            ctx.label("nontrivial_exact_boundary(extra=0)");
        }
        if pmax >= 1e3 * smax {
            ctx.label("nontrivial_with_1000x_outlier");
        }
    }
    Ok(())
}

fn lbar(v: f64) -> RawBar {
    RawBar { o: v, h: v + 0.5, l: v - 0.5, c: v + 0.25, v: 10.0 * v }
}
const EALPHA: [f64; 3] = [1.0, 2.0, 1e6];

fn strategy() -> BoxedStrategy<Case> {
    cfg_among(&KINDS, 300, multiplier_any)
        .prop_flat_map(|cfg| {
            let n = cfg.n();
            let w = cfg.kind.memory(n).unwrap();
            let extra = prop_oneof![3 => Just(0usize), 1 => Just(1usize), 1 => Just(2usize), 1 => Just(n), 2 => 0..=(3 * n)];
            let spike = prop_oneof![1 => Just(1.0f64), 1 => Just(1e6f64), 1 => Just(1e3f64)];
            (Just(cfg), any::<bool>(), prop_oneof![3 => bar_stream(false, 0, 300), 1 => flat_bar_stream(false, 0, 300)], spike, vec(0.0f64..1.0, 1..=8), extra.prop_flat_map(move |e| prop_oneof![2 => bar_stream(false, w + e, w + e), 2 => bar_stream(true, w + e, w + e), 1 => flat_bar_stream(false, w + e, w + e), 1 => flat_bar_stream(true, w + e, w + e)]))
        })
        .prop_map(|(cfg, scalar, pre, spike, where_, suf)| {
            let mut prefix = pre.bars;
            if spike > 1.0 && !prefix.is_empty() {
                for u in where_ {
                    let i = ((u * prefix.len() as f64) as usize).min(prefix.len() - 1);
                    let b = &mut prefix[i];
                    b.o *= spike;
                    b.h *= spike;
                    b.l *= spike;
                    b.c *= spike;
                }
            }
            Case { cfg, scalar, prefix, suffix: suf.bars, gen_prefix: None }
        })
        // an exact zero (0.0 or -0.0: a halted quote, a missing print, a return series) among the last 2n+2 inputs of
        // the prefix: a finite value like any other as far as "forgetting" goes, but the one at which a ratio's
        // guard, an `== 0.0` shortcut or a sign test takes its special path — what that path leaves behind must be
        // gone n (n+1) inputs later
        .prop_flat_map(|c| (Just(c), 0usize..6, proptest::collection::vec((0.0f64..1.0, any::<bool>()), 1..3)))
        .prop_map(|(mut c, z, at)| {
            if z == 0 && !c.prefix.is_empty() {
                let n = c.cfg.n();
                let len = c.prefix.len();
                for (u, neg) in at {
                    let back = ((u * (2 * n + 2) as f64) as usize).min(len - 1);
                    let v = if neg { -0.0 } else { 0.0 };
                    let b = &mut c.prefix[len - 1 - back];
                    b.o = v;
                    b.h = v;
                    b.l = v;
                    b.c = v;
                }
            }
            c
        })
        // the statistics that are defined for any sign (not the ratios of positive prices) also on histories below
        // zero or crossing it: prefix and/or suffix mirrored
        .prop_flat_map(|c| (Just(c), 0usize..8))
        .prop_map(|(mut c, neg)| {
            if neg < 3 && matches!(c.cfg.kind, Kind::Sma | Kind::Wma | Kind::Sd | Kind::Mad | Kind::Min | Kind::Max | Kind::Bb | Kind::FastStoch) {
                let flip = |b: &mut RawBar| {
                    let (h, l) = (-b.l, -b.h);
                    b.h = h;
                    b.l = l;
                    b.c = -b.c;
                    b.o = -b.o;
                };
                if neg != 1 {
                    c.prefix.iter_mut().for_each(flip);
                }
                if neg != 0 {
                    c.suffix.iter_mut().for_each(flip);
                }
            }
            c
        })
        .boxed()
}

pub fn run(g: &mut Global) {
    g.rule = "exhaustive: 12 windowed indicators x periods 1..=3 x every sequence over {1, 2, 1e6} of the stated combined depth x every split into prefix + suffix with the suffix at least as long as the window; random: proptest (kind, period to 300, prefix of 0..300 valid bars with 1e3x / 1e6x spikes in two thirds of the cases, common suffix of length w + extra with extra in {0,1,2,n,random <= 3n}, w = n or n+1). Oracle: instance A fed prefix+suffix vs fresh B fed the suffix only, compared at every step from the w-th suffix element on: exactly equal for MIN, MAX, FAST_STOCH; tau(t)*M over the whole history for SMA, WMA, MAD, BB average; variance scale for SD and BB half-widths; tau*c*scale for ROC, ER, CCI, MFI where c <= 1e6. Non-trivial = non-empty prefix containing a larger magnitude or a lower low than the suffix, with at least one compared step; distinct by hash of (kind, parameters, path, prefix, suffix).".into();
    g.assumptions = vec![
        "StandardDeviation and Bollinger half-widths are compared on the variance scale, as C01/C08/C13/C15 state explicitly (DESIGN.md section 7)".into(),
        "ratio outputs whose reference denominator is zero or whose condition number exceeds 1e6 are skipped (counted)".into(),
    ];
    let depth = g.tier.pick(7usize, 10usize);
    let per = ipow(3, depth) * (depth as u64 + 1);
    g.exhaustive(
        "enum",
        per * 3 * 12,
        &move |i| {
            let r = i / per;
            let n = (r % 3) as usize + 1;
            let kind = KINDS[(r / 3) as usize];
            let j = i % per;
            let split = (j % (depth as u64 + 1)) as usize;
            let d = digits(j / (depth as u64 + 1), 3, depth);
            let w = kind.memory(n).unwrap();
            // suffix must be at least w long: clamp the split
            let split = split.min(depth.saturating_sub(w));
            let bars: Vec<RawBar> = d.iter().map(|&x| lbar(EALPHA[x])).collect();
            Case { cfg: cfg_small(kind, n), scalar: i % 2 == 0, prefix: bars[..split].to_vec(), suffix: bars[split..].to_vec(), gen_prefix: None }
        },
        &check,
    );
    g.random("random", g.tier.pick(150000, 3000000), &strategy, &check);
    // identity events (tele.rs): at one or two steps the instance is replaced by its clone, by a used instance
    // (same or longer periods) that clone_from()s it, or by its serde round trip; nothing may change
    // histories that contain reset() (at a multiple of the period, next to it, anywhere in the prefix; possibly twice)
    g.random("resets", g.tier.pick(30000, 400000), &|| crate::tele::wrap_resets(strategy()), &|t: &crate::tele::TCase<Case>, ctx: &mut Ctx| crate::tele::check_wrapped(t, ctx, t.case.prefix.len().max(1), t.case.cfg.n(), check));
    g.random("events", g.tier.pick(20000, 400000), &|| crate::tele::wrap(strategy()), &|t: &crate::tele::TCase<Case>, ctx: &mut Ctx| crate::tele::check_wrapped(t, ctx, t.case.gen_prefix.as_ref().map(|g| g.1).unwrap_or(0) + t.case.prefix.len() + t.case.suffix.len(), t.case.cfg.n(), check));
    // windows far beyond 1024 slots: prefix of about two windows at several ring phases, suffix w or w+1
    let bigp: Vec<(Kind, usize)> = {
        let mut v = vec![];
        for &k in &[Kind::Sma, Kind::Wma, Kind::Sd, Kind::Bb, Kind::Min, Kind::Max, Kind::FastStoch, Kind::Roc, Kind::Mfi] {
            for n in [1025usize, 1500, 4097, 5000] {
                v.push((k, n));
            }
        }
        for &k in &[Kind::Mad, Kind::Cci, Kind::Er] {
            for n in [1025usize, 1500] {
                v.push((k, n));
            }
        }
        v
    };
    let nbp = bigp.len() as u64;
    let seed0 = g.seed;
    g.exhaustive(
        "large_periods",
        nbp * g.tier.pick(2, 6),
        &move |i| {
            let (kind, n) = bigp[(i % nbp) as usize];
            let ph = (i / nbp) as usize;
            let w = kind.memory(n).unwrap();
            let mut s = seed0 ^ (i + 13).wrapping_mul(0x9E3779B97F4A7C15);
            let sd = splitmix(&mut s);
            let mut g1 = crate::props::c13::Gen::new(sd, [0usize, 3, 1][ph % 3], 85.18, 7);
            let prefix: Vec<RawBar> = (0..n + 4096 + ph * 777 + (sd % 500) as usize).map(|_| g1.bar()).collect();
            let mut g2 = crate::props::c13::Gen::new(sd ^ 0xABCD, 0, 85.18, 7);
            let suffix: Vec<RawBar> = (0..w + ph % 2).map(|_| g2.bar()).collect();
            Case { cfg: cfg_small(kind, n), scalar: i % 2 == 0, prefix, suffix, gen_prefix: None }
        },
        &check,
    );
    // the compared suffix steps placed right after every power-of-two input count 2^8 .. 2^16 (buffers that are
    // compacted or re-synchronised at such counts must still forget)
    let seedp = g.seed;
    g.exhaustive(
        "pow2_positions",
        12 * 2 * 9 * 3,
        &move |i| {
            let j = (i % 3) as usize;
            let r = i / 3;
            let pw = [256usize, 512, 1024, 2048, 4096, 8192, 16_384, 32_768, 65_536][(r % 9) as usize];
            let r = r / 9;
            let n = [3usize, 14][(r % 2) as usize];
            let kind = KINDS[(r / 2) as usize];
            let w = kind.memory(n).unwrap();
            let mut s = seedp ^ (i + 17).wrapping_mul(0x9E3779B97F4A7C15);
            let sd = splitmix(&mut s);
            // total inputs reach 2^k while the suffix is being compared: the prefix ends w + j inputs before 2^k
            let plen = pw - w - j;
            let mut g2 = crate::props::c13::Gen::new(sd ^ 0x77, 0, 85.18, 2 + n);
            let suffix: Vec<RawBar> = (0..w + n + 8).map(|_| g2.bar()).collect();
            Case { cfg: cfg_small(kind, n), scalar: i % 2 == 0, prefix: vec![], suffix, gen_prefix: Some((sd, plen, [0usize, 1, 3][(sd % 3) as usize], X(85.18))) }
        },
        &check,
    );
    // long strictly monotone ramps (with small noise that never reverses them) before the suffix, windows
    // above 256 slots: every element of the window is a candidate extreme at once
    g.exhaustive(
        "monotone_prefix",
        4 * 4 * 2 * 2,
        &move |i| {
            let up = i % 2 == 0;
            let r = i / 2;
            let bars_path = r % 2 == 0;
            let r = r / 2;
            let n = [257usize, 300, 513, 1025][(r % 4) as usize];
            let kind = [Kind::Max, Kind::Min, Kind::FastStoch, Kind::Sma][(r / 4) as usize % 4];
            let w = kind.memory(n).unwrap();
            let mut s = seedp ^ (i + 29).wrapping_mul(0x9E3779B97F4A7C15);
            let len = 2 * n + 100 + (splitmix(&mut s) % 200) as usize;
            let slen = w + (i % 3) as usize;
            // the ramp runs through prefix and suffix alike in 3 of 4 cases (the window the fresh twin sees is
            // itself all candidates), else the suffix is an unrelated walk
            let through = splitmix(&mut s) % 4 != 0;
            let total = len + slen;
            let mut all: Vec<RawBar> = (0..total)
                .map(|t| {
                    let u = unit(&mut s);
                    let x = if up { 100.0 + t as f64 * 0.5 + 0.1 * u } else { 100.0 + (total - t) as f64 * 0.5 + 0.1 * u };
                    RawBar { o: x, h: x + 0.2, l: x - 0.2, c: x + 0.1 * (u - 0.5), v: 10.0 }
                })
                .collect();
            let mut suffix = all.split_off(len);
            let prefix = all;
            if !through {
                let mut g2 = crate::props::c13::Gen::new(splitmix(&mut s), 0, 3.0, 7);
                suffix = (0..slen).map(|_| g2.bar()).collect();
            }
            Case { cfg: cfg_small(kind, n), scalar: !bars_path, prefix, suffix, gen_prefix: None }
        },
        &check,
    );
    // windows that are flat up to a relative spread 2^-e for every e = 10..=52, entered at every ring phase
    // (prefix lengths 0..=n, prefix in the same price unit): a relative threshold of any size inside a
    // "constant window" shortcut that consults one particular buffer slot decides differently for the same window
    let seedr = g.seed;
    g.exhaustive(
        "relative_spread_windows",
        12 * 3 * 43 * 10 * 4,
        &move |i| {
            let rep = i % 4;
            let r = i / 4;
            let ph = (r % 10) as usize;
            let r = r / 10;
            let e = 10 + (r % 43) as i32;
            let r = r / 43;
            let n = [3usize, 5, 9][(r % 3) as usize];
            let kind = KINDS[(r / 3) as usize];
            let w = kind.memory(n).unwrap();
            let mut st = seedr ^ (i + 41).wrapping_mul(0x9E3779B97F4A7C15);
            let level = [100.0, 250.0, 0.0375, 81920.0][rep as usize];
            let d = 2f64.powi(-e);
            let prefix: Vec<RawBar> = (0..ph.min(n + 1)).map(|_| RawBar::flat(level * (0.99 + 0.04 * unit(&mut st)), 10.0)).collect();
            let suffix: Vec<RawBar> = (0..w + (rep as usize % 2)).map(|_| RawBar::flat(level * (1.0 + d * ((splitmix(&mut st) % 9) as f64 - 4.0)), 10.0)).collect();
            Case { cfg: cfg_small(kind, n), scalar: i % 3 != 0, prefix, suffix, gen_prefix: None }
        },
        &check,
    );
    // forgetting after a very long life: more than 2^16 (all O(1)-per-step kinds) and 2^24 (a few) inputs
    // before the common suffix
    let seed = g.seed;
    const UK: [(Kind, usize); 9] = [(Kind::Sma, 14), (Kind::Wma, 5), (Kind::Sd, 20), (Kind::Bb, 9), (Kind::Min, 14), (Kind::Max, 7), (Kind::FastStoch, 14), (Kind::Roc, 9), (Kind::Mfi, 14)];
    let n24 = g.tier.pick(3u64, 9u64);
    g.exhaustive(
        "ultra_prefix",
        9 * 2 + n24,
        &move |i| {
            let (kind, n, plen) = if i < 18 { let (k, n) = UK[(i % 9) as usize]; (k, n, (1usize << 16) + 3 + (i / 9) as usize * 40_000) } else { let (k, n) = UK[((i - 18) % 9) as usize]; (k, n, (1usize << 24) + 5) };
            let mut s = seed ^ (i + 31).wrapping_mul(0xA0761D6478BD642F);
            let sd = splitmix(&mut s);
            let w = kind.memory(n).unwrap();
            let mut g2 = crate::props::c13::Gen::new(sd ^ 0x5AFF, 0, 85.18, 2 + n);
            let suffix: Vec<RawBar> = (0..w + [0usize, 1, n][(sd % 3) as usize]).map(|_| g2.bar()).collect();
            Case { cfg: cfg_small(kind, n), scalar: i % 2 == 0, prefix: vec![], suffix, gen_prefix: Some((sd, plen, [1usize, 0, 2, 4][(sd >> 4) as usize % 4], X(85.18))) }
        },
        &check,
    );
    // forgetting after a long *periodic* life: a saw-tooth of period 2..n+3 for several hundred thousand inputs, then
    // the common suffix — a running sum whose rounding error is biased per period drifts ~t^2 away from what a fresh
    // instance computes from the last n inputs (the WMA defect of section 6 seen from this property)
    const SP: [usize; 7] = [2, 3, 5, 7, 9, 12, 14];
    const SKD: [Kind; 5] = [Kind::Sma, Kind::Wma, Kind::Sd, Kind::Bb, Kind::Mfi];
    let splen = g.tier.pick(600_000usize, 3_000_000usize);
    g.exhaustive(
        "sawtooth_prefix",
        5 * 7 * 3,
        &move |i| {
            let kind = SKD[(i % 5) as usize];
            let r = i / 5;
            let n = SP[(r % 7) as usize];
            let saw = [2usize, 4, n + 1][(r / 7) as usize % 3];
            let mut s = seed ^ (i + 61).wrapping_mul(0xA0761D6478BD642F);
            let sd = splitmix(&mut s);
            let w = kind.memory(n).unwrap();
            let base = [0.37, 85.18, 100.1][(sd % 3) as usize];
            let mut g2 = crate::props::c13::Gen::new(sd ^ 0x77, 4, base, saw);
            let suffix: Vec<RawBar> = (0..w + [0usize, 1, n][(sd % 3) as usize]).map(|_| g2.bar()).collect();
            Case { cfg: cfg_small(kind, n), scalar: kind != Kind::Mfi && i % 2 == 0, prefix: vec![], suffix, gen_prefix: Some((sd, splen, 100 + saw, X(base))) }
        },
        &check,
    );
    if g.tier == Tier::Thorough {
        g.fuzz_stage("ops_pred", Some(4), 600_000, "random", &|b| crate::fuzzdec::decode_c17(b), &check);
    }
}
