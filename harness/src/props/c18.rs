//! C18 — state size and heap use depend on the parameters only, never on stream length.

use crate::adapter::{Ind, Kind, RawBar, ALL_KINDS};
use crate::alloc;
use crate::fw::*;
use crate::gen::*;
use crate::hist::cfg_small;
use proptest::prelude::*;
use serde::{Deserialize, Serialize};

pub const SHAPES: [&str; 12] = ["monotone_up", "monotone_down", "alternating", "flat", "random", "rising_staircase", "falling_staircase", "support_touches", "resistance_touches", "tick_grid_walk", "zero_volume_moving", "periodic_outliers"];

#[derive(Clone, Debug, Serialize, Deserialize)]
pub struct Case {
    pub cfg: Cfg,
    pub shape: usize,
    pub len: usize,
    pub seed: u64,
    pub scalar: bool,
    /// reset() schedule: 0 none; 1 every 50 inputs; 2 every 390 inputs; 3 once, after 2n+5 inputs (window full);
    /// 4 every n+1 inputs; 5 once after n-1 inputs (during warm-up) and again every 7n+3
    #[serde(default)]
    pub resets: u8,
    /// price unit: every price of the stream is multiplied by 10^unit_exp (0 = as generated). A serialized form
    /// whose length follows the magnitude of the numbers (text, variable-length integers, trimmed mantissas) is
    /// constant on ordinary prices and not at 1e300 or 1e-300
    #[serde(default)]
    pub unit_exp: i32,
    /// after this many inputs (0 = never) the instance is replaced by its bincode round trip and *that* instance is
    /// fed and measured from then on: state a deserializer rebuilds differently (a capacity, a cached bound marked
    /// `serde(skip)`) behaves on the restored copy only
    #[serde(default)]
    pub roundtrip_at: usize,
}

fn reset_due(mode: u8, i: usize, n: usize) -> bool {
    let n = n.max(1);
    i > 0
        && match mode {
            1 => i % 50 == 0,
            2 => i % 390 == 0,
            3 => i == 2 * n + 5,
            4 => i % (n + 1) == 0,
            5 => i + 1 == n || i % (7 * n + 3) == 0,
            _ => false,
        }
}

/// two-series shapes (index 12 + 5*high_pattern + low_pattern): the highs and the lows of the bars follow patterns of
/// their own — rising, falling, flat, alternating, random — instead of moving together around one driving price:
/// contracting ranges (every bar inside the previous one: highs falling while lows rise), expanding ones, a rising
/// ceiling over a flat floor, ... A structure that tracks both extremes (or both sides of a flow) and does its
/// house-keeping only when one particular side moves is stressed by exactly one of these combinations.
pub const PATTERNS: [&str; 5] = ["rising", "falling", "flat", "alternating", "random"];
pub fn shape_name(shape: usize) -> String {
    if shape < SHAPES.len() {
        SHAPES[shape].to_string()
    } else if shape >= 37 {
        EXTRA_SHAPES[(shape - 37) % 2].to_string()
    } else {
        let k = shape - SHAPES.len();
        format!("highs_{}_lows_{}", PATTERNS[(k / 5) % 5], PATTERNS[k % 5])
    }
}
pub const N_SHAPES: usize = 12 + 25 + 2;
/// 37: whole-tick walk around zero (a spread, a change series): exact zeros, sign changes, negative prices;
/// 38: compounding sweep through hundreds of binary orders of magnitude and back (7 % per step, full mantissas)
pub const EXTRA_SHAPES: [&str; 2] = ["zero_crossing_ticks", "geometric_sweep"];

fn pattern(p: usize, i: usize, u: f64) -> f64 {
    // values in [0, 100]; the monotone ones are strictly monotone for more than 1e7 steps
    let f = 100.0 * i as f64 / (i as f64 + 1000.0);
    match p {
        0 => f,
        1 => 100.0 - f,
        2 => 50.0,
        3 => (i % 2) as f64 * 100.0,
        _ => 100.0 * u,
    }
}

fn gen_inputs(c: &Case) -> Vec<RawBar> {
    let mut v = gen_inputs_unit1(c);
    if c.unit_exp != 0 {
        let f = 10f64.powi(c.unit_exp);
        for b in v.iter_mut() {
            b.o *= f;
            b.h *= f;
            b.l *= f;
            b.c *= f;
        }
    }
    v
}

fn gen_inputs_unit1(c: &Case) -> Vec<RawBar> {
    let mut st = c.seed;
    let mut out = Vec::with_capacity(c.len);
    if c.shape >= 37 {
        let mut k: i64 = 3;
        let mut x = 1e-150f64;
        let mut up = true;
        for _ in 0..c.len {
            let u = unit(&mut st);
            let p = if c.shape == 37 {
                k = (k + (u * 5.0) as i64 - 2).clamp(-8, 8);
                k as f64 * 0.25
            } else {
                let f = 1.0 + 0.07 * (0.5 + 0.5 * u);
                x = if up { x * f } else { x / f };
                if x > 1e140 {
                    up = false;
                } else if x < 1e-150 {
                    up = true;
                }
                x
            };
            let sp = if c.shape == 37 { 0.25 * ((unit(&mut st) * 2.0) as i64) as f64 } else { 0.01 * p * unit(&mut st) };
            out.push(RawBar { o: p, h: p + sp, l: p - sp, c: p, v: 1.0 + (1000.0 * unit(&mut st)).round() });
        }
        return out;
    }
    if c.shape >= SHAPES.len() {
        let k = c.shape - SHAPES.len();
        let (hp, lp) = ((k / 5) % 5, k % 5);
        for i in 0..c.len {
            let h = 1050.0 + pattern(hp, i, unit(&mut st));
            let l = 850.0 + pattern(lp, i, unit(&mut st));
            let cl = l + (h - l) * unit(&mut st);
            out.push(RawBar { o: cl, h, l, c: cl, v: 1.0 + (1000.0 * unit(&mut st)).round() });
        }
        return out;
    }
    for i in 0..c.len {
        let u = unit(&mut st);
        let x = match c.shape {
            0 => 10.0 + i as f64 * 0.01 + 0.001 * u,
            1 => 1e7 - i as f64 * 0.01 - 0.001 * u,
            2 => {
                if i % 2 == 0 {
                    10.0 + u
                } else {
                    1000.0 - u
                }
            }
            3 => 42.5,
            4 => 1.0 + 999.0 * u,
            // exact ties followed by a strictly higher / lower level: 0,0,1,1,2,2,...
            5 => 100.0 + (i / 2) as f64 * 0.25,
            6 => 1e7 - (i / 2) as f64 * 0.25,
            // an exactly repeated floor / ceiling touched again every few bars, ever-new values between
            7 => if i % 3 == 0 { 50.0 } else { 60.0 + (i % 1000) as f64 * 0.01 + u },
            8 => if i % 3 == 0 { 500.0 } else { 400.0 - (i % 1000) as f64 * 0.01 - u },
            // few distinct tick values
            9 => 100.0 + ((u * 9.0) as usize) as f64 * 0.05,
            // quotes that keep moving while the volume is exactly 0.0 (no volume data / halted instrument)
            10 => 50.0 + 40.0 * u,
            // an enormous tick exactly every `period` inputs, ordinary values between
            _ => {
                let n = c.cfg.p.iter().copied().max().unwrap_or(1).max(1);
                if i % n == 0 {
                    1e15
                } else {
                    100.0 + u
                }
            }
        };
        let sp = if c.shape == 3 || c.shape >= 5 { 0.0 } else { 0.01 * x * unit(&mut st) };
        let vol = if c.shape == 10 { 0.0 } else { 1.0 + (1000.0 * unit(&mut st)).round() };
        out.push(RawBar { o: x, h: x + sp, l: x - sp, c: x + sp * (unit(&mut st) - 0.5), v: vol });
    }
    out
}

fn roundtrip(ind: &Ind, k: Kind) -> Result<Ind, Failure> {
    let bytes = ind.ser().map_err(|e| Failure { signature: format!("C18:{}:serde_error", k.name()), detail: e })?;
    Ind::de(k, &bytes).map_err(|e| Failure { signature: format!("C18:{}:serde_error", k.name()), detail: e })
}

pub fn check(c: &Case, ctx: &mut Ctx) -> Result<(), Failure> {
    let k = c.cfg.kind;
    let name = k.name();
    let p = c.cfg.params();
    let bound = 256 + 64 * p.sum_periods(k) as u64;
    let scalar = c.scalar && k.scalar();
    let inputs = gen_inputs(c);
    let n = c.cfg.p.iter().copied().max().unwrap_or(1);
    // (i) serialized size
    let mut ind = Ind::build(k, &p).map_err(|_| Failure { signature: "C18:harness".into(), detail: "HARNESS build".into() })?;
    let mut next_cp = 4 * n + 50;
    let mut sizes_seen = 0u64;
    let mut max_size = 0u64;
    for (i, b) in inputs.iter().enumerate() {
        if reset_due(c.resets, i, n) {
            ind.reset();
        }
        if c.roundtrip_at > 0 && i == c.roundtrip_at {
            ind = roundtrip(&ind, k)?;
        }
        if scalar {
            ind.next_scalar(b.c);
        } else {
            ind.next_bar(b);
        }
        let sample = i < 4 * n + 50 || i + 1 == inputs.len() || i == next_cp;
        if i == next_cp {
            next_cp = next_cp * 3 / 2 + 1;
        }
        if sample {
            let sz = match ind.ser_size() {
                Ok(s) => s,
                Err(e) => {
                    ctx.fail(format!("C18:{}:serde_error", name), format!("{}: serialized_size failed after {} inputs: {}", c.cfg.tag(), i + 1, e))?;
                    return Ok(());
                }
            };
            sizes_seen += 1;
            max_size = max_size.max(sz);
            if sz > bound {
                ctx.fail(
                    format!("C18:{}:serialized_size_grows", name),
                    format!("{}: serialized size {} bytes after {} inputs ({} stream) exceeds 256 + 64*(sum of periods) = {}", c.cfg.tag(), sz, i + 1, shape_name(c.shape), bound),
                )?;
                return Ok(());
            }
        }
    }
    // (ii) live heap: fresh instance, warm up, then measure net growth while feeding the rest
    let mut ind = Ind::build(k, &p).map_err(|_| Failure { signature: "C18:harness".into(), detail: "HARNESS build".into() })?;
    let warm = (2 * n + 10).min(inputs.len());
    if c.roundtrip_at > 0 {
        // the measured instance is a restored one (restored before the warm-up, so that the copy itself is not counted)
        ind = roundtrip(&ind, k)?;
        ctx.label("restored_instance_measured");
    }
    for b in &inputs[..warm] {
        if scalar {
            ind.next_scalar(b.c);
        } else {
            ind.next_bar(b);
        }
    }
    let live0 = alloc::live();
    let allocs0 = alloc::allocs();
    let mut peak = 0isize;
    for (i, b) in inputs[warm..].iter().enumerate() {
        if reset_due(c.resets, warm + i, n) {
            ind.reset();
        }
        if scalar {
            ind.next_scalar(b.c);
        } else {
            ind.next_bar(b);
        }
        if i % 1024 == 0 {
            peak = peak.max(alloc::live() - live0);
        }
    }
    let growth = alloc::live() - live0;
    let nalloc = alloc::allocs() - allocs0;
    peak = peak.max(growth);
    if growth > bound as isize || peak > bound as isize {
        ctx.fail(
            format!("C18:{}:heap_grows", name),
            format!("{}: live heap grew by {} bytes (peak {}) while feeding {} further inputs ({} stream) after warm-up; bound 256 + 64*(sum of periods) = {}", c.cfg.tag(), growth, peak, inputs.len() - warm, shape_name(c.shape), bound),
        )?;
    }
    drop(ind);
    ctx.label(&format!("kind:{}", name));
    ctx.label(&format!("shape:{}", shape_name(c.shape)));
    ctx.label_n("serialized_size_samples", sizes_seen);
    ctx.label_n("allocation_calls_during_measured_feeding", nalloc as u64);
    ctx.worst(&format!("serialized_size_over_bound:{}", name), max_size as f64 / bound as f64);
    if c.len >= 20 * n {
        let mut fp = Fp::new("C18");
        c.cfg.fp(&mut fp);
        fp.u(c.shape as u64);
        fp.u(c.len as u64);
        fp.u(c.seed);
        fp.u(scalar as u64);
        fp.u(c.resets as u64);
        fp.u(c.unit_exp as u32 as u64);
        fp.u(c.roundtrip_at as u64);
        if c.resets > 0 {
            ctx.label("with_resets");
        }
        ctx.nontrivial(fp);
        ctx.label("nontrivial");
        if c.shape < 2 {
            ctx.label("nontrivial_monotone");
        }
    }
    Ok(())
}

const PERIODS: [usize; 8] = [1, 2, 3, 5, 14, 64, 200, 512];

fn strategy(maxlen: usize) -> BoxedStrategy<Case> {
    (any_kind().prop_flat_map(|k| cfg_for(k, 512, multiplier_any())), prop_oneof![2 => Just(0usize), 2 => Just(1usize), 1 => Just(2usize), 1 => Just(3usize), 1 => Just(4usize), 1 => Just(5usize), 1 => Just(6usize), 1 => Just(7usize), 1 => Just(8usize), 1 => Just(9usize), 1 => Just(10usize), 1 => Just(11usize), 6 => 12usize..37usize, 2 => 37usize..N_SHAPES], (maxlen / 10)..=maxlen, any::<u64>(), any::<bool>(), prop_oneof![3 => Just(0u8), 1 => 1u8..6], prop_oneof![6 => Just(0i32), 1 => Just(290), 1 => Just(-300), 1 => -60i32..60])
        .prop_map(|(cfg, shape, len, seed, scalar, resets, unit_exp)| {
            let n = cfg.p.iter().copied().max().unwrap_or(1);
            let heavy = matches!(cfg.kind, Kind::Mad | Kind::Cci | Kind::Er) && n > 32;
            let len = if heavy { (len / (n / 16)).max(20 * n) } else { len.max(20 * n) };
            Case { cfg, shape, len, seed, scalar, resets, unit_exp: if shape == 11 { unit_exp.min(280) } else { unit_exp }, roundtrip_at: if seed % 5 == 0 { 1 + (seed >> 8) as usize % (len / 2).max(1) } else { 0 } }
        })
        .boxed()
}

pub fn run(g: &mut Global) {
    g.rule = "grid: all 22 indicators x periods {1,2,3,5,14,64,200,512} x 12 single-series stream shapes (zero-volume moving quotes, an enormous tick every `period` inputs, monotone up, monotone down, alternating, flat, random, rising and falling staircases with exact ties, repeated touches of an exact floor / ceiling, tick-grid walk) x scalar/bar path, streams of 1e5 (quick) / 1e6 (thorough) inputs; extreme_units: all 22 indicators x periods {1,14,64} x {random, monotone, flat} with every price multiplied by 1e300, 1e-300, 1e57, 1e-45, 1e150, 1e-310; zero_crossing_and_sweep: a whole-tick walk around zero (exact zeros, sign changes) and a compounding sweep through hundreds of binary orders of magnitude and back; restored_instances: the instance is replaced by its bincode round trip after 1, n or 3n+7 inputs and the restored copy is fed and measured; two_series_bars: the 9 indicators that read more than one bar field x the 8 periods x 25 shapes in which highs and lows follow patterns of their own (rising / falling / flat / alternating / random each: contracting inside-bar ranges, expanding ranges, a rising ceiling over a flat floor, ...); with_resets: periods {1,9,20,60} x five reset schedules (every 50 / 390 / n+1 inputs, once after the window filled, during warm-up and every 7n+3) x 3 shapes; random: proptest (kind, periods from the mixture to 512, shape, length, seed). Oracle: (i) bincode::serialized_size <= 256 + 64*(sum of periods) at every one of the first 4n+50 inputs and at geometrically spaced checkpoints afterwards; (ii) counting #[global_allocator] with per-thread live-byte counters: after a warm-up of 2n+10 inputs, the net growth (and the sampled peak) of live heap bytes while feeding the rest stays <= the same bound; the number of allocation calls during that phase is reported. Non-trivial = stream at least 20 periods long; sub-class monotone shapes (worst case for a retained history / monotonic deque); distinct by (kind, parameters, shape, length, seed, path).".into();
    g.assumptions = vec![
        "inputs are pre-generated before the measured phase; the feeding loop itself allocates nothing".into(),
        "heap is measured on the thread that feeds the indicator; ta spawns no threads".into(),
        "O(n)-per-step indicators with large periods run shorter streams".into(),
    ];
    let len = g.tier.pick(100_000usize, 1_000_000usize);
    let seed = g.seed;
    g.exhaustive(
        "grid",
        22 * 8 * 12 * 2,
        &move |i| {
            let scalar = i % 2 == 0;
            let r = i / 2;
            let shape = (r % 12) as usize;
            let r = r / 12;
            let n = PERIODS[(r % 8) as usize];
            let kind = ALL_KINDS[(r / 8) as usize];
            let heavy = matches!(kind, Kind::Mad | Kind::Cci | Kind::Er) && n > 32;
            let l = if heavy { (len / (n / 16)).max(20 * n) } else { len.max(20 * n) };
            let mut s = seed ^ i.wrapping_mul(0x2545F4914F6CDD1D);
            Case { cfg: cfg_small(kind, n), shape, len: l, seed: splitmix(&mut s), scalar, resets: 0, unit_exp: 0, roundtrip_at: 0 }
        },
        &check,
    );
    // two-series bar shapes (see PATTERNS) for the indicators that read more than one field of a bar
    const MULTI: [Kind; 9] = [Kind::FastStoch, Kind::SlowStoch, Kind::Tr, Kind::Atr, Kind::Cci, Kind::Ce, Kind::Kc, Kind::Mfi, Kind::Obv];
    g.exhaustive(
        "two_series_bars",
        9 * 8 * 25,
        &move |i| {
            let shape = 12 + (i % 25) as usize;
            let r = i / 25;
            let n = PERIODS[(r % 8) as usize];
            let kind = MULTI[(r / 8) as usize];
            let heavy = matches!(kind, Kind::Cci) && n > 32;
            let l = if heavy { (len / (n / 16)).max(20 * n) } else { len.max(20 * n) };
            let mut s = seed ^ (i + 991).wrapping_mul(0x2545F4914F6CDD1D);
            Case { cfg: cfg_small(kind, n), shape, len: l, seed: splitmix(&mut s), scalar: false, resets: 0, unit_exp: 0, roundtrip_at: 0 }
        },
        &check,
    );
    // exact zeros / sign changes and a compounding sweep through hundreds of binades (EXTRA_SHAPES); and the common
    // shapes on an instance restored from its own bytes after 1, n, 3n+7 inputs
    g.exhaustive(
        "zero_crossing_and_sweep",
        22 * 4 * 2 * 2,
        &move |i| {
            let scalar = i % 2 == 0;
            let r = i / 2;
            let shape = 37 + (r % 2) as usize;
            let r = r / 2;
            let n = [1usize, 5, 14, 64][(r % 4) as usize];
            let kind = ALL_KINDS[(r / 4) as usize];
            let heavy = matches!(kind, Kind::Mad | Kind::Cci | Kind::Er) && n > 32;
            let mut s = seed ^ (i + 7001).wrapping_mul(0x2545F4914F6CDD1D);
            Case { cfg: cfg_small(kind, n), shape, len: if heavy { 20_000 } else { 40_000 }, seed: splitmix(&mut s), scalar, resets: 0, unit_exp: 0, roundtrip_at: 0 }
        },
        &check,
    );
    g.exhaustive(
        "restored_instances",
        22 * 3 * 3 * 3,
        &move |i| {
            let shape = [4usize, 0, 5][(i % 3) as usize];
            let r = i / 3;
            let n = [2usize, 14, 60][(r % 3) as usize];
            let r = r / 3;
            let at = [1usize, n, 3 * n + 7][(r % 3) as usize];
            let kind = ALL_KINDS[(r / 3) as usize];
            let heavy = matches!(kind, Kind::Mad | Kind::Cci | Kind::Er) && n > 32;
            let mut s = seed ^ (i + 9001).wrapping_mul(0x2545F4914F6CDD1D);
            Case { cfg: cfg_small(kind, n), shape, len: if heavy { 20_000 } else { 40_000 }, seed: splitmix(&mut s), scalar: i % 2 == 0, resets: 0, unit_exp: 0, roundtrip_at: at }
        },
        &check,
    );
    // the same streams in extreme price units (see Case::unit_exp)
    let ulen = g.tier.pick(20_000usize, 200_000usize);
    g.exhaustive(
        "extreme_units",
        22 * 3 * 3 * 6,
        &move |i| {
            let unit_exp = [300i32, -300, 57, -45, 150, -310][(i % 6) as usize];
            let r = i / 6;
            let shape = [4usize, 0, 3][(r % 3) as usize];
            let r = r / 3;
            let n = [1usize, 14, 64][(r % 3) as usize];
            let kind = ALL_KINDS[(r / 3) as usize];
            let heavy = matches!(kind, Kind::Mad | Kind::Cci | Kind::Er) && n > 32;
            let mut s = seed ^ (i + 4242).wrapping_mul(0x2545F4914F6CDD1D);
            Case { cfg: cfg_small(kind, n), shape, len: if heavy { ulen / 2 } else { ulen }, seed: splitmix(&mut s), scalar: i % 2 == 1, resets: 0, unit_exp, roundtrip_at: 0 }
        },
        &check,
    );
    // the same bound with reset() in the history: sessions of 50 / 390 / n+1 inputs, one reset right after the
    // window filled, one during warm-up (state that reset() merely marks as expired must still be released)
    let rlen = g.tier.pick(40_000usize, 400_000usize);
    g.exhaustive(
        "with_resets",
        22 * 4 * 5 * 3,
        &move |i| {
            let shape = [4usize, 0, 3][(i % 3) as usize];
            let r = i / 3;
            let resets = 1 + (r % 5) as u8;
            let r = r / 5;
            let n = [1usize, 9, 20, 60][(r % 4) as usize];
            let kind = ALL_KINDS[(r / 4) as usize];
            let heavy = matches!(kind, Kind::Mad | Kind::Cci | Kind::Er) && n > 32;
            let mut s = seed ^ (i + 13).wrapping_mul(0x2545F4914F6CDD1D);
            Case { cfg: cfg_small(kind, n), shape, len: if heavy { rlen / 2 } else { rlen }, seed: splitmix(&mut s), scalar: i % 2 == 0, resets, unit_exp: 0, roundtrip_at: 0 }
        },
        &check,
    );
    let ml = g.tier.pick(20_000usize, 1_000_000usize);
    g.random("random", g.tier.pick(640, 6000), &move || strategy(ml), &check);
}
