//! C04 — reset() returns every indicator to a state indistinguishable from a fresh one.

use crate::adapter::{Ind, Kind, RawBar, ALL_KINDS};
use crate::fw::*;
use crate::gen::*;
use crate::hist::*;
use proptest::collection::vec;
use proptest::prelude::*;
use serde::{Deserialize, Serialize};

#[derive(Clone, Debug, Serialize, Deserialize)]
pub enum HOp {
    Next(Inp),
    Reset,
}

#[derive(Clone, Debug, Serialize, Deserialize)]
pub struct Case {
    pub cfg: Cfg,
    pub history: Vec<HOp>,
    pub continuation: Vec<Inp>,
}

const REL: f64 = 1e-12;

pub fn check(c: &Case, ctx: &mut Ctx) -> Result<(), Failure> {
    let k = c.cfg.kind;
    let p = c.cfg.params();
    let name = k.name();
    let mk = || Ind::build(k, &p).map_err(|_| Failure { signature: "C04:harness".into(), detail: "HARNESS build".into() });
    let mut a = mk()?;
    let disp0 = a.display();
    let per0 = a.period();
    let mul0 = a.multiplier().map(f64::to_bits);
    let mut fp = Fp::new("C04");
    c.cfg.fp(&mut fp);
    let mut since_reset = 0usize;
    let mut nonfinite = false;
    let mut resets = 0;
    for op in &c.history {
        match op {
            HOp::Next(inp) => {
                feed(&mut a, inp);
                since_reset += 1;
                if !inp.bar.is_finite() {
                    nonfinite = true;
                }
                fp.f(inp.bar.c);
                fp.f(inp.bar.h);
                fp.u(inp.scalar as u64);
            }
            HOp::Reset => {
                a.reset();
                since_reset = 0;
                resets += 1;
                fp.u(0xDEAD);
            }
        }
    }
    a.reset();
    if a.display() != disp0 || a.period() != per0 || a.multiplier().map(f64::to_bits) != mul0 {
        ctx.fail(
            format!("C04:{}:params_changed", name),
            format!("{}: parameters after history+reset: Display {:?} period {:?} multiplier {:?}; before: {:?} {:?} {:?}", c.cfg.tag(), a.display(), a.period(), a.multiplier(), disp0, per0, mul0.map(f64::from_bits)),
        )?;
    }
    let mut b = mk()?; // fresh
    let mut cc = mk()?; // fresh, reset twice before first use
    cc.reset();
    cc.reset();
    let mut d = a.clone(); // just-reset, reset again
    d.reset();
    for (i, inp) in c.continuation.iter().enumerate() {
        fp.f(inp.bar.c);
        fp.f(inp.bar.l);
        let oa = feed(&mut a, inp);
        let ob = feed(&mut b, inp);
        let oc = feed(&mut cc, inp);
        let od = feed(&mut d, inp);
        if !same_out(&oa, &ob, REL) {
            ctx.fail(
                format!("C04:{}:stale_after_reset", name),
                format!("{}: after history ({} ops, {} resets) + reset(), continuation step {} input {:?}: reset instance returns {:?}, fresh instance {:?}", c.cfg.tag(), c.history.len(), resets, i, inp, oa.vals(), ob.vals()),
            )?;
        }
        if !same_out(&oc, &ob, REL) {
            ctx.fail(
                format!("C04:{}:reset_on_fresh", name),
                format!("{}: reset() on a fresh instance changed behaviour: step {} input {:?}: {:?} vs fresh {:?}", c.cfg.tag(), i, inp, oc.vals(), ob.vals()),
            )?;
        }
        if !same_out(&od, &oa, REL) {
            ctx.fail(
                format!("C04:{}:double_reset", name),
                format!("{}: a second reset() after reset changed behaviour: step {} input {:?}: {:?} vs {:?}", c.cfg.tag(), i, inp, od.vals(), oa.vals()),
            )?;
        }
    }
    if a.display() != disp0 || a.period() != per0 {
        ctx.fail(format!("C04:{}:params_changed", name), format!("{}: parameters changed during continuation", c.cfg.tag()))?;
    }
    ctx.label(&format!("kind:{}", name));
    let w = flush_len(&c.cfg);
    // non-trivial: the window had filled and wrapped before the final reset, continuation long enough to flush
    let differs = {
        let tail: Vec<&Inp> = c.history.iter().rev().filter_map(|o| if let HOp::Next(i) = o { Some(i) } else { None }).take(c.continuation.len().min(w)).collect();
        tail.is_empty() || tail.iter().rev().zip(c.continuation.iter()).any(|(x, y)| x.bar.c.to_bits() != y.bar.c.to_bits())
    };
    if since_reset >= w.saturating_add(1) && c.continuation.len() >= w.saturating_add(2) && differs {
        ctx.nontrivial(fp);
        ctx.label("nontrivial");
        if nonfinite {
            ctx.label("nontrivial_with_nonfinite_history");
        }
        if resets > 0 {
            ctx.label("nontrivial_with_inner_resets");
        }
    }
    Ok(())
}

// exhaustive alphabet: 5 value letters (one of them a bar with an enormous volume) + Reset
fn hletter(j: usize) -> HOp {
    match j {
        0 => HOp::Next(letter(1.0)),
        1 => HOp::Next(letter(4.0)),
        2 => HOp::Next(letter_bar(2.5)),
        3 => HOp::Next(letter(f64::NAN)),
        4 => {
            // a flow so large that ordinary flows added to it are absorbed (x + f == x)
            let mut l = letter_bar(3.0);
            l.bar.v = 1e21;
            HOp::Next(l)
        }
        _ => HOp::Reset,
    }
}
fn continuations() -> [Vec<Inp>; 5] {
    [
        [2.0, 3.0, 5.0, 4.0, 1.0, 6.0, 2.5, 7.0].iter().map(|&v| letter(v)).collect(),
        [9.0, 7.0, 5.0, 3.0, 1.0, 0.5, 0.25, 8.0].iter().map(|&v| letter_bar(v)).collect(),
        [1.0, 1.0, 1.0, 2.0, 2.0, 2.0, 3.0, 1.0].iter().enumerate().map(|(i, &v)| if i % 2 == 0 { letter(v) } else { letter_bar(v) }).collect(),
        // the first input after the reset is small, then zero / negative: whatever reference value the first
        // comparison uses (previous close, seed) must be the constructor's, for any sign and size of that input
        [0.5, 0.125, 0.75, 3.0, 0.25, 2.0, 0.5, 0.125].iter().map(|&v| letter_bar(v - 0.25)).collect(),
        [-0.25, -3.0, 0.0, -1.0, 2.0, -0.5, 1.0, -4.0].iter().enumerate().map(|(i, &v)| if i % 2 == 0 { letter_bar(v - 0.25) } else { letter(v) }).collect(),
    ]
}

fn history_strategy(n: usize, long: bool) -> BoxedStrategy<Vec<HOp>> {
    let maxlen = if long { 3 * n + 2000 } else { 3 * n + 20 };
    let ordinary = vec(prop_oneof![30 => inp_finite().prop_map(HOp::Next), 1 => Just(HOp::Reset)], 0..=maxlen);
    let special = vec(prop_oneof![30 => inp_special(15).prop_map(HOp::Next), 1 => Just(HOp::Reset)], 0..=maxlen);
    // guaranteed-full histories: at least n+1 inputs since the last reset
    let full = (vec(prop_oneof![20 => inp_special(5).prop_map(HOp::Next), 1 => Just(HOp::Reset)], 0..=(n + 10)), vec(inp_special(8).prop_map(HOp::Next), (n + 1)..=(2 * n + 6))).prop_map(|(mut a, b)| {
        a.extend(b);
        a
    });
    // a finite history on a much larger scale than the continuation (residue in running sums that a lazy
    // reset leaves behind is invisible when history and continuation share a scale)
    let scaled = (vec(inp_finite().prop_map(HOp::Next), (n + 1)..=(2 * n + 6)), prop_oneof![Just(1e9), Just(1e12), Just(1e15), Just(1e-9)]).prop_map(|(mut h, f)| {
        for op in h.iter_mut() {
            if let HOp::Next(i) = op {
                i.bar.o *= f;
                i.bar.h *= f;
                i.bar.l *= f;
                i.bar.c *= f;
            }
        }
        h
    });
    prop_oneof![3 => ordinary, 3 => special, 4 => full, 2 => scaled].boxed()
}

fn strategy(cap: usize, long: bool) -> BoxedStrategy<Case> {
    any_kind()
        .prop_flat_map(move |k| cfg_for(k, cap, multiplier_any()))
        .prop_flat_map(move |cfg| {
            let n = flush_len(&cfg);
            (Just(cfg), history_strategy(n, long), vec(inp_finite(), (n + 2)..=(3 * n + 5)), 0usize..8, prop_oneof![6 => Just(1.0f64), 1 => Just(1e-3), 1 => Just(1e-9), 1 => Just(-1.0), 1 => Just(0.0), 1 => Just(-1e-4)], (0usize..48, 1usize..4, any::<bool>()))
        })
        .prop_map(|(cfg, history, mut continuation, flat, unit, (magic, mlen, mscalar))| {
            // the continuation in another unit or sign than the history (and than any constant a reset may
            // re-install): the first comparison after the reset must use the constructor's reference value
            if unit != 1.0 {
                for c in continuation.iter_mut() {
                    let b = &mut c.bar;
                    let (h, l) = (b.h * unit, b.l * unit);
                    b.o *= unit;
                    b.c *= unit;
                    b.h = h.max(l);
                    b.l = h.min(l);
                }
            }
            // a flat continuation (every bar identical) or one with a long plateau: constant-window shortcuts
            // consult state that reset() may have left behind
            if flat == 0 {
                let f = continuation[0].clone();
                for c in continuation.iter_mut() {
                    *c = f.clone();
                }
            } else if flat == 2 || flat == 3 {
                // strictly rising / falling from the first input on (run-length shortcuts compare the first input
                // after the reset with whatever "previous value" the reset left behind)
                let b0 = continuation[0].bar;
                let dir = if flat == 2 { 1.0 } else { -1.0 };
                for (j, c) in continuation.iter_mut().enumerate() {
                    let f = 1.0 + dir * 0.004 * j as f64 / (1.0 + 0.004 * j as f64 * (dir < 0.0) as u8 as f64);
                    c.bar = RawBar { o: b0.o * f, h: b0.h * f, l: b0.l * f, c: b0.c * f, v: b0.v };
                }
            } else if flat == 1 {
                let k = continuation.len() / 3;
                let f = continuation[k].clone();
                for c in continuation.iter_mut().skip(k) {
                    *c = f.clone();
                }
            }
            // the continuation opens with a "round" constant: a reset() that re-installs 0, 1, a seed or a neutral
            // output value in some cell instead of the constructor's marker is visible only when the first input
            // after the reset equals (or is ordered in one particular way against) exactly that constant
            const MAGIC: [f64; 12] = [0.0, -0.0, 1.0, -1.0, 0.1, 0.5, 2.0, 10.0, 50.0, 100.0, f64::MIN_POSITIVE, f64::EPSILON];
            if magic < MAGIC.len() {
                for c in continuation.iter_mut().take(mlen) {
                    let v = MAGIC[magic];
                    c.bar = RawBar { o: v, h: v, l: v, c: v, v: c.bar.v };
                    c.scalar = mscalar;
                }
            }
            Case { cfg, history, continuation }
        })
        .boxed()
}

pub fn run(g: &mut Global) {
    g.rule = "exhaustive: all 22 indicators x periods 1..=4 x every history of length 0..=depth over {1, 4, bar 2.5, NaN, bar with volume 1e21, Reset} x 5 fixed continuations of 8 finite inputs (two of them opening with small, zero and negative prices); random: proptest histories of Next/Reset (finite, or with NaN/inf/MAX/subnormal fields, or guaranteed-full) followed by a final reset() and an independently drawn finite continuation of n+2..3n+5 inputs (in the history's unit, or scaled by 1e-3, 1e-9, 0, -1, -1e-4). Oracle: the reset instance, a fresh instance, a fresh instance reset twice and a doubly-reset instance agree on every continuation output within 1e-12 relative (NaN = NaN), and period()/multiplier()/Display are unchanged. Non-trivial = at least n+1 inputs since the previous reset before the final reset (window full and wrapped), continuation of at least n+2 inputs that differs from the tail of the history; distinct by hash of (kind, parameters, history, continuation).".into();
    g.assumptions = vec![
        "continuation inputs are finite (DESIGN.md section 4/C04: NaN ordering in Minimum/Maximum after reset is outside the claim)".into(),
        "agreement within 1e-12 relative as the property states; NaN compared equal to NaN".into(),
    ];
    let depth = g.tier.pick(5usize, 7usize);
    // all histories of length 0..=depth: index space sum 6^d
    let mut offs = vec![0u64];
    for d in 0..=depth {
        offs.push(offs[d] + ipow(6, d));
    }
    let per_cfg = offs[depth + 1];
    let conts = continuations();
    let count = per_cfg * 5 * 4 * 22;
    g.exhaustive(
        "enum",
        count,
        &move |i| {
            let h = i % per_cfg;
            let r = i / per_cfg;
            let cont = conts[(r % 5) as usize].clone();
            let r = r / 5;
            let n = (r % 4) as usize + 1;
            let kind: Kind = ALL_KINDS[(r / 4) as usize];
            let d = (0..=depth).find(|&d| h < offs[d + 1]).unwrap();
            let digs = digits(h - offs[d], 6, d);
            Case { cfg: cfg_small(kind, n), history: digs.iter().map(|&j| hletter(j)).collect(), continuation: cont }
        },
        &check,
    );
    let cap = g.tier.pick(256usize, 2048usize);
    g.random("random", g.tier.pick(400000, 800000), &move || strategy(cap, false), &check);
    if g.tier == Tier::Thorough {
        g.random("deep", 3000, &move || strategy(64, true), &check);
    }
    // histories whose length sits just below / at / above 2^8 and 2^16 when reset() is called: a narrow
    // counter or an occasional re-synchronisation that reset() forgets about would fire during warm-up
    let seed = g.seed;
    const LENS: [usize; 6] = [255, 256, 257, 65_535, 65_536, 65_537];
    // every power of two from 2^8 to 2^16 (+1): the reset happens 0..7 inputs before it
    const POW: [usize; 9] = [257, 513, 1025, 2049, 4097, 8193, 16_385, 32_769, 65_537];
    g.exhaustive(
        "counter_wrap",
        22 * 2 * 9 * 8,
        &move |i| {
            let d = (i % 8) as usize;
            let r = i / 8;
            let l = POW[(r % 9) as usize];
            let r = r / 9;
            let n = [3usize, 6][(r % 2) as usize];
            let kind: Kind = ALL_KINDS[(r / 2) as usize];
            let mut st = seed ^ (i + 1).wrapping_mul(0xD6E8FEB86659FD93);
            let mut mk = |st: &mut u64| {
                let u = unit(st);
                let v = 20.0 + 10.0 * u;
                Inp { bar: crate::adapter::RawBar { o: v, h: v + 1.0 + u, l: v - 1.0, c: v + 0.5 - u, v: 1.0 + (u * 50.0).round() }, scalar: u > 0.4 }
            };
            let history: Vec<HOp> = (0..l.saturating_sub(d)).map(|_| HOp::Next(mk(&mut st))).collect();
            let continuation: Vec<Inp> = (0..n + 12).map(|_| mk(&mut st)).collect();
            Case { cfg: cfg_small(kind, n), history, continuation }
        },
        &check,
    );
    // allocation-free period arguments at the top of usize: reset must not recompute anything that overflows
    const BIG: [usize; 4] = [1usize << 53, usize::MAX / 2 + 1, usize::MAX - 1, usize::MAX];
    g.exhaustive(
        "boundary_periods",
        9 * 4 * 3,
        &|i| {
            let hl = (i % 3) as usize;
            let b = BIG[((i / 3) % 4) as usize];
            let cfg = match i / 12 {
                0 => Cfg { kind: Kind::Ema, p: vec![b], m: X(0.0) },
                1 => Cfg { kind: Kind::Rsi, p: vec![b], m: X(0.0) },
                2 => Cfg { kind: Kind::Atr, p: vec![b], m: X(0.0) },
                3 => Cfg { kind: Kind::Kc, p: vec![b], m: X(2.0) },
                4 => Cfg { kind: Kind::Macd, p: vec![b, 26, 9], m: X(0.0) },
                5 => Cfg { kind: Kind::Macd, p: vec![12, 26, b], m: X(0.0) },
                6 => Cfg { kind: Kind::Ppo, p: vec![12, b, 9], m: X(0.0) },
                7 => Cfg { kind: Kind::SlowStoch, p: vec![3, b], m: X(0.0) },
                _ => Cfg { kind: Kind::Ema, p: vec![b - 1], m: X(0.0) },
            };
            let history: Vec<HOp> = (0..hl * 2).map(|j| HOp::Next(letter(1.0 + j as f64))).collect();
            Case { cfg, history, continuation: [2.0, 3.0, 5.0, 4.0, 1.0, 6.0].iter().map(|&v| letter(v)).collect() }
        },
        &check,
    );
    // very many resets in a row (a generation / epoch counter bumped by reset() would wrap): a short
    // session, then 255..257 or 65 535..65 537 bare resets, then the continuation
    g.exhaustive(
        "reset_count_wrap",
        22 * 2 * 6 * 3,
        &move |i| {
            let sess = [1usize, 3, 9][(i % 3) as usize];
            let r = i / 3;
            let l = LENS[(r % 6) as usize];
            let r = r / 6;
            let n = [3usize, 6][(r % 2) as usize];
            let kind: Kind = ALL_KINDS[(r / 2) as usize];
            let mut st = seed ^ (i + 77).wrapping_mul(0xD6E8FEB86659FD93);
            let mut mk = |st: &mut u64| {
                let u = unit(st);
                let v = 20.0 + 10.0 * u;
                Inp { bar: crate::adapter::RawBar { o: v, h: v + 1.0 + u, l: v - 1.0, c: v + 0.5 - u, v: 1.0 + (u * 50.0).round() }, scalar: u > 0.4 }
            };
            let mut history: Vec<HOp> = (0..sess).map(|_| HOp::Next(mk(&mut st))).collect();
            history.extend((0..l - 1).map(|_| HOp::Reset));
            let continuation: Vec<Inp> = (0..n + 12).map(|_| mk(&mut st)).collect();
            Case { cfg: cfg_small(kind, n), history, continuation }
        },
        &check,
    );
    if g.tier == Tier::Thorough {
        g.fuzz_stage("ops_equiv", Some(0), 2_000_000, "random", &|b| crate::fuzzdec::decode_c04(b), &check);
    }
}
