//! C03 — oscillators equal their documented formulas wherever these are well-conditioned.

use crate::adapter::{Ind, Kind, RawBar};
use crate::dd::DD;
use crate::fw::*;
use crate::gen::*;
use crate::refs::*;
use proptest::prelude::*;
use serde::{Deserialize, Serialize};

#[derive(Clone, Debug, Serialize, Deserialize)]
pub struct Case {
    pub cfg: Cfg,
    pub scalar: bool,
    pub xs: Vec<X>,
    pub bars: Vec<RawBar>,
    /// k > 1: the stateless window references (FAST_STOCH, ER, CCI, MFI) are evaluated while t <= n+2,
    /// at every k-th step and at the end only (fuzz decoder, large periods)
    #[serde(default)]
    pub stride: usize,
}

pub const CAP: f64 = 1e6;
pub const SEP: f64 = 1e-12;

/// a case whose indicator is built with Default::default(); its cfg holds the documented default parameters
#[derive(Clone, Debug, Serialize, Deserialize)]
pub struct DCase {
    pub case: Case,
}

pub fn check(c: &Case, ctx: &mut Ctx) -> Result<(), Failure> {
    check_with(c, ctx, false)
}

pub fn check_with(c: &Case, ctx: &mut Ctx, via_default: bool) -> Result<(), Failure> {
    let mut ind = if via_default { Ind::default_of(c.cfg.kind) } else { Ind::build(c.cfg.kind, &c.cfg.params()).map_err(|_| Failure { signature: "C03:harness".into(), detail: "HARNESS build".into() })? };
    check_on(c, ctx, &mut ind)
}

/// a case with reset() calls: `resets[j]` = number of inputs fed before the j-th reset. Each stretch between
/// resets is judged as a stream of its own (t counts inputs since the reset, as the property defines it) on the
/// *same* instance.
#[derive(Clone, Debug, Serialize, Deserialize)]
pub struct RCase {
    pub case: Case,
    pub resets: Vec<usize>,
}

pub fn check_resets(r: &RCase, ctx: &mut Ctx) -> Result<(), Failure> {
    let c = &r.case;
    let mut ind = Ind::build(c.cfg.kind, &c.cfg.params()).map_err(|_| Failure { signature: "C03:harness".into(), detail: "HARNESS build".into() })?;
    
    let len = if c.scalar { c.xs.len() } else { c.bars.len() };
    let mut cuts: Vec<usize> = r.resets.iter().copied().filter(|&x| x > 0 && x < len).collect();
    cuts.sort_unstable();
    cuts.dedup();
    cuts.push(len);
    let mut a = 0usize;
    for (j, &b) in cuts.iter().enumerate() {
        if j > 0 {
            ind.reset();
            
            ctx.label("segments_after_reset");
        }
        let mut seg = c.clone();
        if c.scalar {
            seg.xs = c.xs[a..b].to_vec();
        } else {
            seg.bars = c.bars[a..b].to_vec();
        }
        // only the last stretch (always one after a reset) is counted, so that a case counts once
        let was = ctx.counting;
        ctx.counting = was && j + 1 == cuts.len();
        let res = check_on(&seg, ctx, &mut ind);
        ctx.counting = was;
        res?;
        a = b;
    }
    Ok(())
}

pub fn check_on(c: &Case, ctx: &mut Ctx, ind: &mut Ind) -> Result<(), Failure> {
    let k = c.cfg.kind;
    let p = c.cfg.params();
    let n = c.cfg.n();
    let len = if c.scalar { c.xs.len() } else { c.bars.len() };
    let name = k.name();
    let mut fp = Fp::new("C03");
    c.cfg.fp(&mut fp);
    fp.u(c.scalar as u64);
    // reference state / history
    let mut hist: Vec<f64> = vec![]; // scalar history (close for bars)
    let mut bars: Vec<RawBar> = vec![];
    let mut highs: Vec<f64> = vec![];
    let mut lows: Vec<f64> = vec![];
    let mut rsi = RsiRef::new(n.max(1));
    let mut e1 = EmaRef::new(n.max(1));
    let mut e2 = EmaRef::new(p.p[1].max(1));
    let mut e3 = EmaRef::new(p.p[2].max(1));
    let mut slow_ema = EmaRef::new(p.p[1].max(1));
    let mut cmax = 0.0f64; // running max condition number (EMA-smoothed ratios)
    let mut obv = DD::ZERO;
    let mut obv_scale = 0.0f64;
    let mut obv_prev = 0.0f64;
    let mut mfi_big = 0.0f64;
    let mut tp_big = 0.0f64;
    let mut cci_sum_overflowed = false;
    let (mut ups, mut downs, mut equals) = (false, false, false);
    let (mut checked, mut ill, mut degen, mut taint) = (0u64, 0u64, 0u64, 0u64);
    for i in 0..len {
        crate::tele::step(ind, &c.cfg);
        let (out, bar) = if c.scalar {
            let x = c.xs[i].0;
            fp.f(x);
            (if crate::tele::scalar_here() { ind.next_bar(&RawBar::flat(x, 0.0)) } else { ind.next_scalar(x) }, RawBar::flat(x, 0.0))
        } else {
            let mut b = c.bars[i];
            // mixed use of both paths on one instance (tele.rs): this step goes through next(close); the
            // reference sees the one-price bar that the scalar path stands for
            let sc = k.scalar() && crate::tele::scalar_here();
            if sc {
                b = RawBar::flat(b.c, b.v);
            }
            fp.f(b.h);
            fp.f(b.l);
            fp.f(b.c);
            fp.f(b.v);
            (if sc { ind.next_scalar(b.c) } else { ind.next_bar(&b) }, b)
        };
        let x = bar.c;
        if let Some(&pv) = hist.last() {
            let (a, b2) = if matches!(k, Kind::Cci | Kind::Mfi) { (bars[bars.len() - 1].tp(), bar.tp()) } else { (pv, x) };
            if b2 > a {
                ups = true
            } else if b2 < a {
                downs = true
            } else {
                equals = true
            }
        }
        hist.push(x);
        bars.push(bar);
        highs.push(bar.h);
        lows.push(bar.l);
        let t = hist.len();
        let w0 = t - t.min(n);
        if c.stride > 1 && matches!(k, Kind::FastStoch | Kind::Er | Kind::Cci | Kind::Mfi) && (t > n + 2 || (n > 3000 && t > 4 && t + 2 < n)) && i % c.stride != 0 && i + 1 != len {
            if k == Kind::Mfi && t >= 2 && may_flow(&bars[t - 2], &bar) {
                mfi_big = mfi_big.max((tp_dd(&bar).to_f64() * bar.v).abs());
            }
            tp_big = tp_big.max(bar.tp().abs());
            continue;
        }
        // (field, reference or None=degenerate, natural scale, tainted)
        let mut exp: Vec<(&'static str, Option<Cond>, f64, bool)> = Vec::with_capacity(3);
        match k {
            Kind::Rsi => exp.push(("rsi", rsi.next(x), 100.0, false)),
            Kind::FastStoch => {
                let r = if c.scalar { fast_stoch_ref(&hist[w0..], &hist[w0..], x) } else { fast_stoch_ref(&highs[w0..], &lows[w0..], x) };
                exp.push(("fast", Some(r), 100.0, false));
            }
            Kind::SlowStoch => {
                let r = if c.scalar { fast_stoch_ref(&hist[w0..], &hist[w0..], x) } else { fast_stoch_ref(&highs[w0..], &lows[w0..], x) };
                cmax = cmax.max(r.c).max(1.0);
                let v = slow_ema.next(r.val);
                exp.push(("slow", Some(Cond { val: v, c: cmax }), 100.0, false));
            }
            Kind::Roc => exp.push(("roc", roc_ref(&hist, n), 100.0, false)),
            Kind::Er => exp.push(("er", er_ref(&hist, n), 1.0, false)),
            Kind::Ppo => {
                let f = e1.next(DD::from(x));
                let s = e2.next(DD::from(x));
                if s.is_zero() {
                    exp.push(("ppo", None, 100.0, false));
                } else {
                    let ppo = f.sub(s).div(s).mul_f(100.0);
                    let cc = f.to_f64().abs().max(s.to_f64().abs()) / s.to_f64().abs();
                    cmax = cmax.max(cc);
                    let sig = e3.next(ppo);
                    exp.push(("ppo", Some(Cond { val: ppo, c: cc }), 100.0, false));
                    exp.push(("signal", Some(Cond { val: sig, c: cmax }), 100.0, false));
                    exp.push(("histogram", Some(Cond { val: ppo.sub(sig), c: cmax }), 100.0, false));
                }
            }
            Kind::Cci => {
                tp_big = tp_big.max(bar.tp().abs());
                if tp_big > 1e300 {
                    // n window values plus the incoming one (MeanAbsoluteDeviation adds before it subtracts)
                    let wsum: f64 = bars[w0.saturating_sub(1)..].iter().map(|b| tp_dd(b).to_f64().abs()).sum();
                    // the deviation sum is bounded by twice the price sum: either may overflow
                    if !(2.0 * wsum).is_finite() {
                        cci_sum_overflowed = true;
                    }
                }
                exp.push(("cci", cci_ref(&bars, n, tp_big), 1.0 / 0.015, false))
            }
            Kind::Mfi => {
                if t == 1 {
                    exp.push(("mfi", Some(Cond { val: DD::from(50.0), c: 0.0 }), 100.0, false));
                } else {
                    let m = mfi_ref(&bars, n, SEP);
                    // largest single-bar flow since reset (every flow entered the running totals)
                    let a = &bars[t - 2];
                    if may_flow(a, &bar) {
                        mfi_big = mfi_big.max((tp_dd(&bar).to_f64() * bar.v).abs());
                    }
                    let den = m.pmf.add(m.nmf);
                    if !(den.hi > 0.0) {
                        exp.push(("mfi", None, 100.0, m.tainted));
                    } else {
                        exp.push(("mfi", Some(Cond { val: m.pmf.div(den).mul_f(100.0), c: mfi_big.max(m.max_flow_in_window) / den.to_f64() }), 100.0, m.tainted));
                    }
                }
            }
            Kind::Obv => {
                if x > obv_prev {
                    obv = obv.add_f(bar.v);
                } else if x < obv_prev {
                    obv = obv.sub_f(bar.v);
                }
                obv_prev = x;
                obv_scale = obv_scale.max(obv.to_f64().abs()).max(bar.v.abs());
                exp.push(("obv", Some(Cond { val: obv, c: 1.0 }), obv_scale, false));
            }
            _ => unreachable!("HARNESS: kind not in C03"),
        }
        for (j, (field, r, scale, tainted)) in exp.iter().enumerate() {
            if *tainted {
                taint += 1;
                continue;
            }
            let r = match r {
                None => {
                    degen += 1;
                    continue;
                }
                Some(r) => r,
            };
            if !(r.c <= CAP) || !r.val.to_f64().is_finite() {
                ill += 1;
                continue;
            }
            checked += 1;
            let got = out.v[j];
            let tol = tau(t) * r.c.max(1.0) * scale;
            let e = err(got, r.val);
            let ok = if r.c == 0.0 { got == r.val.to_f64() } else { e <= tol };
            ctx.worst(&format!("{}.{}", name, field), if tol > 0.0 { e / tol } else { 0.0 });
            if !ok {
                // precondition class of known finding K1: the sum of the window's typical prices exceeds
                // f64::MAX although the mean, the deviation and the CCI value itself are ordinary numbers
                if k == Kind::Cci {
                    if cci_sum_overflowed {
                        ctx.fail(
                            "C03:CCI:cci:window_sum_overflow".into(),
                            format!("{} step {}: cci = {:e}, documented formula gives {:e}: at this or an earlier step the sum of the {} typical prices in the window (each about {:e}) (plus the incoming one) exceeded f64::MAX, so a running sum behind the SMA / mean-deviation term became inf (and stays inf/NaN until reset)", c.cfg.tag(), i, got, r.val.to_f64(), t.min(n), bar.tp()),
                        )?;
                        continue;
                    }
                }
                ctx.fail(
                    format!("C03:{}:{}:mismatch", name, field),
                    format!(
                        "{} ({} path) step {}: {} = {:e}, documented formula gives {:e}; |err| {:e} > tol {:e} (condition number {:e}); last inputs {:?}",
                        c.cfg.tag(), if c.scalar { "scalar" } else { "bar" }, i, field, got, r.val.to_f64(), e, tol, r.c,
                        &bars[t.saturating_sub(n.saturating_add(2))..].iter().map(|b| if c.scalar { vec![b.c] } else { vec![b.h, b.l, b.c, b.v] }).collect::<Vec<_>>()
                    ),
                )?;
            }
        }
    }
    ctx.label(&format!("kind:{}:{}", name, if c.scalar { "scalar" } else { "bar" }));
    ctx.label_n("steps_checked", checked);
    ctx.label_n("steps_skipped_illconditioned", ill);
    ctx.label_n("steps_skipped_degenerate", degen);
    ctx.label_n("steps_skipped_tainted", taint);
    let needs_equal = !matches!(k, Kind::Ppo | Kind::Roc);
    if len >= n.saturating_add(2) && ups && downs && (equals || !needs_equal) && checked > 0 {
        ctx.nontrivial(fp);
        ctx.label("nontrivial");
    }
    Ok(())
}

const SALPHA: [f64; 4] = [1.0, 2.0, 3.0, 5.0];
pub fn balpha() -> [RawBar; 6] {
    [
        RawBar::hlcv(10.0, 8.0, 9.0, 100.0),
        RawBar::hlcv(11.0, 7.0, 9.0, 50.0),  // same typical price as the first, different bar
        RawBar::hlcv(12.0, 10.0, 11.5, 0.0), // zero volume, close != (h+l)/2
        RawBar::hlcv(9.0, 7.0, 7.5, 300.0),
        RawBar::hlcv(10.0, 10.0, 10.0, 10.0), // one-price bar
        RawBar::hlcv(13.0, 9.0, 9.5, 1e6),    // large volume
    ]
}
fn scalar_cfgs() -> Vec<Cfg> {
    let mut v = vec![];
    for n in 1..=5usize {
        for kind in [Kind::Rsi, Kind::FastStoch, Kind::Roc, Kind::Er] {
            v.push(Cfg { kind, p: vec![n], m: X(0.0) });
        }
        v.push(Cfg { kind: Kind::SlowStoch, p: vec![n, 1], m: X(0.0) });
        v.push(Cfg { kind: Kind::SlowStoch, p: vec![n, 3], m: X(0.0) });
    }
    for f in 1..=3usize {
        for s in 1..=3usize {
            for g in 1..=2usize {
                v.push(Cfg { kind: Kind::Ppo, p: vec![f, s, g], m: X(0.0) });
            }
        }
    }
    v
}
fn bar_cfgs() -> Vec<Cfg> {
    let mut v = vec![Cfg { kind: Kind::Obv, p: vec![], m: X(0.0) }];
    for n in 1..=5usize {
        for kind in [Kind::FastStoch, Kind::Cci, Kind::Mfi] {
            v.push(Cfg { kind, p: vec![n], m: X(0.0) });
        }
        v.push(Cfg { kind: Kind::SlowStoch, p: vec![n, 2], m: X(0.0) });
    }
    v
}

const SK: [Kind; 6] = [Kind::Rsi, Kind::FastStoch, Kind::SlowStoch, Kind::Roc, Kind::Er, Kind::Ppo];
const BK: [Kind; 5] = [Kind::FastStoch, Kind::SlowStoch, Kind::Cci, Kind::Mfi, Kind::Obv];

fn no_mult() -> BoxedStrategy<f64> {
    Just(0.0).boxed()
}

/// prices quoted in an extremely small unit (normal numbers around 1e-303 whose products with small
/// volumes and smoothing factors are subnormal): absolute thresholds such as f64::MIN_POSITIVE,
/// is_normal() or EPSILON hidden in a guard show up only here. CCI is left out: 0.015*MAD itself would be
/// a coarse subnormal, so its documented formula is not evaluable to the stated tolerance there.
/// prices in an enormous unit (1e304 .. 5e307): x*100 overflows although every documented value is an
/// ordinary number; MFI is left out (price x volume exceeds f64::MAX by definition); CCI is included and exposes the known finding K1 (the running sum behind its SMA term overflows although every documented quantity is representable)
fn huge_strategy() -> BoxedStrategy<Case> {
    const HB: [Kind; 4] = [Kind::FastStoch, Kind::SlowStoch, Kind::Cci, Kind::Obv];
    prop_oneof![
        3 => cfg_among(&SK, 64, no_mult).prop_flat_map(|cfg| { let n = cfg.n(); (Just(cfg), stream(Domain::Huge, 1, 4 * n + 60)) }).prop_map(|(cfg, s)| Case { cfg, scalar: true, xs: xs(&s.vals), bars: vec![], stride: 0 }),
        1 => cfg_among(&HB, 64, no_mult).prop_flat_map(|cfg| { let n = cfg.n(); (Just(cfg), bar_stream_dom(Domain::Huge, 1, 4 * n + 60)) }).prop_map(|(cfg, s)| Case { cfg, scalar: false, xs: vec![], bars: s.bars, stride: 0 }),
    ]
    .boxed()
}

const TSK: [Kind; 5] = [Kind::FastStoch, Kind::SlowStoch, Kind::Roc, Kind::Er, Kind::Ppo];
const TBK: [Kind; 4] = [Kind::FastStoch, Kind::SlowStoch, Kind::Mfi, Kind::Obv];
fn tiny_strategy() -> BoxedStrategy<Case> {
    prop_oneof![
        cfg_among(&TSK, 64, no_mult).prop_flat_map(|cfg| { let n = cfg.n(); (Just(cfg), stream(Domain::TinyNormal, 1, 4 * n + 60)) }).prop_map(|(cfg, s)| Case { cfg, scalar: true, xs: xs(&s.vals), bars: vec![], stride: 0 }),
        cfg_among(&TBK, 64, no_mult).prop_flat_map(|cfg| { let n = cfg.n(); (Just(cfg), bar_stream_dom(Domain::TinyNormal, 1, 4 * n + 60), 0usize..3) }).prop_map(|(cfg, s, vs)| {
            // volumes: as generated, or scaled down to fractional lots (flows become subnormal)
            let f = [1.0, 1e-3, 1e-5][vs];
            let bars = s.bars.into_iter().map(|mut b| { b.v *= f; b }).collect();
            Case { cfg, scalar: false, xs: vec![], bars, stride: 0 }
        }),
    ]
    .boxed()
}

/// after each reset the instance may be re-used for another instrument: the stretch that follows a reset position
/// gets its prices and/or volumes in another unit (x 1e-3, 1e3, 1e-6, 1e6) — residue that a reset leaves behind in
/// a compensation term or a cached total is negligible at the old scale and dominant at a much smaller one
pub fn rescale_stretches(xs: &mut [X], bars: &mut [RawBar], resets: &[usize], picks: &[u8]) {
    const F: [f64; 6] = [1.0, 1e-3, 1e3, 1e-6, 1e6, 1.0];
    let len = xs.len().max(bars.len());
    let mut cuts: Vec<usize> = resets.iter().copied().filter(|&x| x > 0 && x < len).collect();
    cuts.sort_unstable();
    cuts.dedup();
    for (j, &a) in cuts.iter().enumerate() {
        let b = cuts.get(j + 1).copied().unwrap_or(len);
        let pk = picks.get(j % picks.len().max(1)).copied().unwrap_or(0);
        let (fp, fv) = (F[(pk % 6) as usize], F[((pk / 6) % 6) as usize]);
        for x in xs.iter_mut().take(b).skip(a) {
            x.0 *= fp;
        }
        for q in bars.iter_mut().take(b).skip(a) {
            q.o *= fp;
            q.h *= fp;
            q.l *= fp;
            q.c *= fp;
            q.v *= fv;
        }
    }
}

fn reset_strategy() -> BoxedStrategy<RCase> {
    prop_oneof![
        cfg_among(&SK, 40, no_mult)
            .prop_flat_map(|cfg| {
                let n = cfg.n();
                (Just(cfg), prop_oneof![3 => stream(Domain::PositiveGrid, 4 * n + 10, 8 * n + 60), 1 => stream(Domain::Positive, 4 * n + 10, 8 * n + 60)], proptest::collection::vec(any::<u16>(), 1..4), proptest::collection::vec(prop_oneof![2 => Just(0u8), 1 => 0u8..36], 3))
            })
            .prop_map(|(cfg, s, pk, sc)| {
                let resets = crate::hist::reset_positions(cfg.n(), s.vals.len(), &pk);
                let mut x = xs(&s.vals);
                rescale_stretches(&mut x, &mut [], &resets, &sc);
                RCase { case: Case { cfg, scalar: true, xs: x, bars: vec![], stride: 0 }, resets }
            }),
        cfg_among(&BK, 40, no_mult)
            .prop_flat_map(|cfg| {
                let n = cfg.n();
                (Just(cfg), prop_oneof![3 => bar_stream(true, 4 * n + 10, 8 * n + 60), 1 => bar_stream(false, 4 * n + 10, 8 * n + 60)], proptest::collection::vec(any::<u16>(), 1..4), proptest::collection::vec(prop_oneof![2 => Just(0u8), 1 => 0u8..36], 3))
            })
            .prop_map(|(cfg, s, pk, sc)| {
                let resets = crate::hist::reset_positions(cfg.n(), s.bars.len(), &pk);
                let mut bars = s.bars;
                rescale_stretches(&mut [], &mut bars, &resets, &sc);
                RCase { case: Case { cfg, scalar: false, xs: vec![], bars, stride: 0 }, resets }
            }),
    ]
    .boxed()
}
fn strategy(lo: usize, hi: usize, extra: usize) -> BoxedStrategy<Case> {
    prop_oneof![
        cfg_among(&SK, 1100, no_mult)
            .prop_flat_map(move |cfg| {
                let n = cfg.n();
                (Just(cfg), prop_oneof![3 => stream(Domain::PositiveGrid, lo, (4 * n + 50).max(hi.min(400)).max(lo) + extra), 1 => stream(Domain::Positive, lo, (4 * n + 50).max(hi.min(400)).max(lo) + extra)])
            })
            .prop_map(|(cfg, s)| { let st = if cfg.n() > 64 { cfg.n() / 24 } else { 0 }; Case { cfg, scalar: true, xs: xs(&s.vals), bars: vec![], stride: st } }),
        cfg_among(&BK, 1100, no_mult)
            .prop_flat_map(move |cfg| {
                let n = cfg.n();
                (Just(cfg), prop_oneof![3 => bar_stream(true, lo, (4 * n + 50).max(hi.min(400)).max(lo) + extra), 1 => bar_stream(false, lo, (4 * n + 50).max(hi.min(400)).max(lo) + extra)])
            })
            .prop_map(|(cfg, s)| { let st = if cfg.n() > 64 { cfg.n() / 24 } else { 0 }; Case { cfg, scalar: false, xs: vec![], bars: s.bars, stride: st } }),
    ]
    .boxed()
}

pub fn run(g: &mut Global) {
    g.rule = "exhaustive: scalar sequences over {1,2,3,5} for RSI, FAST_STOCH, SLOW_STOCH, ROC, ER (periods 1..=5) and PPO over (fast,slow) in {1,2,3}^2 x signal {1,2}; bar sequences over a 6-bar alphabet (equal neighbours, equal typical price from different bars, zero volume, close != (high+low)/2) for FAST_STOCH, SLOW_STOCH, CCI, MFI (periods 1..=5) and OBV; random: positive grid-valued or free positive prices / valid bars with close drawn independently inside [low, high], periods to 512. Every prefix compared with a double-double from-scratch evaluation of the documented formula where the condition number c <= 1e6 and the reference denominator is non-zero; MFI windows with an ambiguous direction test are skipped (counted). Non-trivial = longer than n+2 with an up move, a down move and (where the formula has a tie rule) an exactly equal neighbour, and at least one checked step; distinct by hash of (kind, parameters, path, inputs).".into();
    g.assumptions = vec![
        "tolerance tau(t)*c*scale (100; 1 for ER; 1/0.015 for CCI; largest cumulative |volume| for OBV), checked iff c <= 1e6".into(),
        "EMA-smoothed ratios (SLOW_STOCH, PPO signal/histogram) use the running maximum of c".into(),
        "MFI: c = largest single-bar flow since start / window total flow; windows containing an ambiguous typical-price comparison (neither identical bars, nor separated by 1e-12 relative, nor exactly representable sums) are skipped".into(),
        "RSI: both averages seeded with 0.1 at the first input as documented".into(),
    ];
    // instances obtained from Default::default() follow the same formulas with the documented default parameters
    // (a Default assembled from component defaults can report one period and compute with another)
    let seedd = g.seed;
    let nsk = SK.len() as u64;
    let nbk = BK.len() as u64;
    g.exhaustive(
        "defaults",
        (nsk + nbk) * 16,
        &move |i| {
            let j = i % (nsk + nbk);
            let r = i / (nsk + nbk);
            let mut gen = crate::props::c13::Gen::new(seedd ^ (i + 1).wrapping_mul(0x9E3779B97F4A7C15), [0usize, 3, 1, 4][(r % 4) as usize], 3.7, 5);
            if j < nsk {
                DCase { case: Case { cfg: crate::hist::cfg_default(SK[j as usize]), scalar: true, xs: (0..200).map(|_| X(gen.next())).collect(), bars: vec![], stride: 0 } }
            } else {
                DCase { case: Case { cfg: crate::hist::cfg_default(BK[(j - nsk) as usize]), scalar: false, xs: vec![], bars: (0..200).map(|_| gen.bar()).collect(), stride: 0 } }
            }
        },
        &|d: &DCase, ctx: &mut Ctx| check_with(&d.case, ctx, true),
    );
    let sc = scalar_cfgs();
    let bc = bar_cfgs();
    let d1 = g.tier.pick(7usize, 9usize);
    let per = ipow(4, d1);
    g.exhaustive(
        "enum_scalar",
        per * sc.len() as u64,
        &move |i| {
            let cfg = sc[(i / per) as usize].clone();
            let d = digits(i % per, 4, d1);
            Case { cfg, scalar: true, xs: d.iter().map(|&j| X(SALPHA[j])).collect(), bars: vec![], stride: 0 }
        },
        &check,
    );
    let d2 = g.tier.pick(6usize, 8usize);
    let perb = ipow(6, d2);
    let ba = balpha();
    g.exhaustive(
        "enum_bars",
        perb * bc.len() as u64,
        &move |i| {
            let cfg = bc[(i / perb) as usize].clone();
            let d = digits(i % perb, 6, d2);
            Case { cfg, scalar: false, xs: vec![], bars: d.iter().map(|&j| ba[j]).collect(), stride: 0 }
        },
        &check,
    );
    let hi = g.tier.pick(400usize, 3000usize);
    g.random("random", g.tier.pick(60000, 400000), &move || strategy(1, hi, 0), &check);
    g.random("long", g.tier.pick(48, 600), &|| strategy(5000, 10000, 0), &check);
    // window-less period arguments at the top of the usize range (2^31, 2^32, 2^32+1, 2^33, 2^40, 2^53+1, 2^63,
    // MAX-1, MAX): valid configurations like any other — a period converted through a narrower integer type or
    // rounded on its way to the smoothing factor builds without complaint and computes something else
    const BP: [usize; 9] = [1 << 31, 1 << 32, (1 << 32) + 1, 1 << 33, 1 << 40, (1 << 53) + 1, usize::MAX / 2 + 1, usize::MAX - 1, usize::MAX];
    g.exhaustive(
        "boundary_periods",
        9 * 5,
        &|i| {
            let b = BP[(i % 9) as usize];
            let cfg = match i / 9 {
                0 => Cfg { kind: Kind::Rsi, p: vec![b], m: X(0.0) },
                1 => Cfg { kind: Kind::Ppo, p: vec![b, 26, 9], m: X(0.0) },
                2 => Cfg { kind: Kind::Ppo, p: vec![12, b, 9], m: X(0.0) },
                3 => Cfg { kind: Kind::Ppo, p: vec![12, 26, b], m: X(0.0) },
                _ => Cfg { kind: Kind::SlowStoch, p: vec![5, b], m: X(0.0) },
            };
            let vals: Vec<f64> = (0..60).map(|j| 100.0 + if j % 2 == 0 { 10.0 } else { -7.5 } + j as f64 * 0.375).collect();
            Case { cfg, scalar: true, xs: xs(&vals), bars: vec![], stride: 0 }
        },
        &check,
    );
    // exact arithmetic: periods 1, 3, 7 (alpha = 1, 1/2, 1/4) on small-integer prices, where two averages become
    // bit-equal mid-stream; every sequence of 6 prices over {1,2,3,4}, fed twice
    const DY: [usize; 3] = [1, 3, 7];
    g.exhaustive(
        "dyadic_exact",
        (27 + 9 + 3) * 4096,
        &|i| {
            let seq = digits(i % 4096, 4, 6);
            let r = (i / 4096) as usize;
            let cfg = if r < 27 {
                Cfg { kind: Kind::Ppo, p: vec![DY[r % 3], DY[(r / 3) % 3], DY[r / 9]], m: X(0.0) }
            } else if r < 36 {
                Cfg { kind: Kind::SlowStoch, p: vec![1 + (r - 27) % 3, DY[(r - 27) / 3]], m: X(0.0) }
            } else {
                Cfg { kind: Kind::Rsi, p: vec![DY[r - 36]], m: X(0.0) }
            };
            let xs: Vec<X> = seq.iter().chain(seq.iter()).map(|&d| X(1.0 + d as f64)).collect();
            Case { cfg, scalar: true, xs, bars: vec![], stride: 0 }
        },
        &check,
    );
    // identity events (tele.rs): at one or two steps the instance is replaced by its clone, by a used instance
    // (same or longer periods) that clone_from()s it, or by its serde round trip; nothing may change
    g.random("events", g.tier.pick(12000, 100000), &move || crate::tele::wrap(strategy(1, hi, 0)), &|t: &crate::tele::TCase<Case>, ctx: &mut Ctx| crate::tele::check_wrapped(t, ctx, if t.case.scalar { t.case.xs.len() } else { t.case.bars.len() }, t.case.cfg.n(), check));
    // the same formulas after reset() (the property counts t "since construction/reset"): resets at multiples of
    // the period, next to them, anywhere, and a second reset before the window refilled
    g.random("resets", g.tier.pick(20000, 150000), &reset_strategy, &check_resets);
    g.random("tiny_units", g.tier.pick(8000, 60000), &tiny_strategy, &check);
    g.random("huge_units", g.tier.pick(6000, 40000), &huge_strategy, &check);
    // windows of 1024 slots and more (powers of two and their neighbours), the window references every
    // n/24-th step
    let lp: Vec<(Kind, bool)> = vec![(Kind::Roc, true), (Kind::FastStoch, true), (Kind::FastStoch, false), (Kind::Er, true), (Kind::Rsi, true), (Kind::Ppo, true), (Kind::Mfi, false), (Kind::Cci, false), (Kind::Obv, false)];
    let nlp = lp.len() as u64;
    let seedl = g.seed;
    g.exhaustive(
        "large_periods",
        nlp * 5,
        &move |i| {
            let (kind, scalar) = lp[(i % nlp) as usize];
            let n = [1024usize, 1025, 2048, 4096, 1500][(i / nlp) as usize % 5];
            let n = if matches!(kind, Kind::Er | Kind::Cci | Kind::Mfi) { n.min(2048) } else { n };
            let mut gen = crate::props::c13::Gen::new(seedl ^ (i + 3).wrapping_mul(0x9E3779B97F4A7C15), [0usize, 3, 1][(i % 3) as usize], 37.0, 7);
            let len = 2 * n + 300;
            let cfg = crate::hist::cfg_small(kind, n);
            if scalar {
                Case { cfg, scalar: true, xs: (0..len).map(|_| X(gen.next())).collect(), bars: vec![], stride: n / 24 }
            } else {
                Case { cfg, scalar: false, xs: vec![], bars: (0..len).map(|_| gen.bar()).collect(), stride: n / 24 }
            }
        },
        &check,
    );
    // very long windows over a quiet market: CCI with 4 500 ... 10 000 slots on prices base*(1 +- a), a from 1e-5 to
    // 5e-3 (a threshold that compares a per-element deviation with a whole-window quantity grows with the window
    // and reaches well-conditioned territory only there)
    g.exhaustive(
        "quiet_large_windows",
        3 * 10,
        &move |i| {
            let n = [4500usize, 6000, 10_000][(i % 3) as usize];
            let a = 1e-5 * 2f64.powi((i / 3) as i32);
            let base = [100.0f64, 0.37, 85_180.0][((i / 3) % 3) as usize];
            let mut st = seedl ^ (i + 29).wrapping_mul(0xD6E8FEB86659FD93);
            let bars: Vec<RawBar> = (0..n + 60)
                .map(|_| {
                    let x = base * (1.0 + a * (2.0 * unit(&mut st) - 1.0));
                    let w = x * a * 0.05 * unit(&mut st);
                    RawBar { o: x, h: x + w, l: x - w, c: x + w * (2.0 * unit(&mut st) - 1.0), v: 10.0 }
                })
                .collect();
            Case { cfg: crate::hist::cfg_small(Kind::Cci, n), scalar: false, xs: vec![], bars, stride: n / 12 }
        },
        &check,
    );
    // closes on neighbouring doubles (moves of exactly one ulp) with real volume: direction tests must be exact
    g.exhaustive(
        "one_ulp_moves",
        4 * 3 * 64,
        &move |i| {
            let kind = [Kind::Obv, Kind::Mfi, Kind::Rsi, Kind::FastStoch][(i % 4) as usize];
            let base = [101.25f64, 0.3, 6.02e23][((i / 4) % 3) as usize];
            let mut st = seedl ^ (i + 11).wrapping_mul(0xD6E8FEB86659FD93);
            let mut k: i64 = 8;
            let bars: Vec<RawBar> = (0..40)
                .map(|_| {
                    let u = unit(&mut st);
                    k += [-1i64, 0, 1, 1, -1, 2, -2, 0][(u * 8.0) as usize];
                    let c = f64::from_bits((base.to_bits() as i64 + k) as u64);
                    RawBar { o: c, h: c, l: c, c, v: 100.0 + (u * 900.0).round() }
                })
                .collect();
            let cfg = crate::hist::cfg_small(kind, 3);
            if kind.scalar() && i % 2 == 0 {
                Case { cfg, scalar: true, xs: bars.iter().map(|b| X(b.c)).collect(), bars: vec![], stride: 0 }
            } else {
                Case { cfg, scalar: false, xs: vec![], bars, stride: 0 }
            }
        },
        &check,
    );
    // sleep and wake (see hist::sleep_wake_bars): RSI, SLOW_STOCH, PPO carry exponential averages
    let seed = seedl;
    let swk: Vec<(Kind, usize, bool)> = vec![(Kind::Rsi, 2, true), (Kind::Rsi, 3, true), (Kind::Rsi, 14, true), (Kind::SlowStoch, 3, false), (Kind::SlowStoch, 5, true), (Kind::Ppo, 3, true), (Kind::Mfi, 3, false), (Kind::Cci, 5, false)];
    let nsw = swk.len() as u64;
    g.exhaustive(
        "sleep_wake",
        nsw * 8,
        &move |i| {
            let (kind, n, scalar) = swk[(i % nsw) as usize];
            let flat = crate::hist::SLEEP_LENS[(i / nsw) as usize % 8];
            let bars = crate::hist::sleep_wake_bars(seed ^ i.wrapping_mul(0x9E3779B97F4A7C15), flat, [100.0, 0.37, 1e4][(i % 3) as usize]);
            let cfg = crate::hist::cfg_small(kind, n);
            if scalar && kind.scalar() {
                Case { cfg, scalar: true, xs: bars.iter().map(|b| X(b.c)).collect(), bars: vec![], stride: 0 }
            } else {
                Case { cfg, scalar: false, xs: vec![], bars, stride: 0 }
            }
        },
        &check,
    );
    // ultra-long single-instance streams (see props/longrun.rs and c13::check_as)
    let lc: Vec<(Cfg, bool)> = vec![
        (Cfg { kind: Kind::Rsi, p: vec![14], m: X(0.0) }, true),
        (Cfg { kind: Kind::Rsi, p: vec![3], m: X(0.0) }, true),
        (Cfg { kind: Kind::FastStoch, p: vec![14], m: X(0.0) }, false),
        (Cfg { kind: Kind::FastStoch, p: vec![5], m: X(0.0) }, true),
        (Cfg { kind: Kind::SlowStoch, p: vec![14, 3], m: X(0.0) }, false),
        (Cfg { kind: Kind::SlowStoch, p: vec![5, 2], m: X(0.0) }, true),
        (Cfg { kind: Kind::Roc, p: vec![9], m: X(0.0) }, true),
        (Cfg { kind: Kind::Er, p: vec![14], m: X(0.0) }, true),
        (Cfg { kind: Kind::Ppo, p: vec![12, 26, 9], m: X(0.0) }, true),
        (Cfg { kind: Kind::Obv, p: vec![], m: X(0.0) }, false),
    ];
    let nl = lc.len() as u64;
    let l16 = g.tier.pick(70_000usize, 300_000usize);
    let lc1 = lc.clone();
    g.exhaustive("ultra_2^16", nl * g.tier.pick(2, 5), &move |i| crate::props::longrun::grid_case(&lc1, i, seed, l16), &|c, ctx| crate::props::longrun::check_long(c, ctx, "C03"));
    let l24 = (1usize << 24) + 5000;
    g.exhaustive("ultra_2^24", g.tier.pick(4, nl * 2), &move |i| crate::props::longrun::grid_case(&lc, i * 3 + 2, seed ^ 0x24, l24), &|c, ctx| crate::props::longrun::check_long(c, ctx, "C03"));
    // CCI and MFI (windowed, recomputed from the harness's ring at sampled steps)
    let wk = [(Kind::Mfi, 14usize), (Kind::Mfi, 3), (Kind::Cci, 20), (Kind::Cci, 4)];
    g.exhaustive(
        "ultra_windowed",
        g.tier.pick(4 * 3, 4 * 5 * 2),
        &move |i| {
            let (kind, n) = wk[(i % 4) as usize];
            let regime = [3usize, 0, 4, 1, 2][((i / 4) % 5) as usize];
            let mut s = seed ^ (i + 7).wrapping_mul(0xA0761D6478BD642F);
            let sd = splitmix(&mut s);
            // MFI is O(1) per step: beyond 2^24 evictions; CCI is O(n): beyond 2^16
            let len = if kind == Kind::Mfi { (1usize << 24) + 4000 } else { 140_000 };
            crate::props::c13::Case { kind, n, regime, base: X([0.37, 85.18, 1e4][(sd % 3) as usize]), seed: sd, len, saw: 2 + (sd >> 9) as usize % (n + 2) }
        },
        &|c, ctx| crate::props::c13::check_as(c, ctx, "C03", true),
    );
    if g.tier == Tier::Thorough {
        g.fuzz_stage("ops_value", Some(2), 600_000, "random", &|b| crate::fuzzdec::decode_c03(b), &check);
    }
}
