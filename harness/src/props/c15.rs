//! C15 — composite indicators agree with wiring their public building blocks by hand.

use crate::adapter::{Ind, Kind, Params, RawBar};
use crate::dd::DD;
use crate::fw::*;
use crate::gen::*;
use crate::refs::*;
use proptest::prelude::*;
use serde::{Deserialize, Serialize};

#[derive(Clone, Debug, Serialize, Deserialize)]
pub struct Case {
    pub cfg: Cfg,
    pub scalar: bool,
    pub xs: Vec<X>,
    pub bars: Vec<RawBar>,
}

fn part(k: Kind, n: usize) -> Result<Ind, Failure> {
    Ind::build(k, &Params::one(n)).map_err(|_| Failure { signature: "C15:harness".into(), detail: "HARNESS part build".into() })
}

/// a case whose composite is built with Default::default() (its cfg holds the documented defaults)
#[derive(Clone, Debug, Serialize, Deserialize)]
pub struct DCase {
    pub case: Case,
}

pub fn check(c: &Case, ctx: &mut Ctx) -> Result<(), Failure> {
    check_with(c, ctx, false)
}

pub fn check_with(c: &Case, ctx: &mut Ctx, via_default: bool) -> Result<(), Failure> {
    let k = c.cfg.kind;
    let name = k.name();
    let p = c.cfg.params();
    let n = c.cfg.n();
    let m = p.m;
    let mut comp = if via_default { Ind::default_of(k) } else { Ind::build(k, &p).map_err(|_| Failure { signature: "C15:harness".into(), detail: "HARNESS build".into() })? };
    // public parts
    let mut sma = part(Kind::Sma, n)?;
    let mut sd = part(Kind::Sd, n)?;
    let mut mad = part(Kind::Mad, n)?;
    let mut fast = part(Kind::FastStoch, n)?;
    let mut ema1 = part(Kind::Ema, n)?;
    let mut ema2 = part(Kind::Ema, p.p[1].max(1))?;
    let mut ema3 = part(Kind::Ema, p.p[2].max(1))?;
    let mut tr = Ind::build(Kind::Tr, &Params::new(&[], 0.0)).unwrap();
    let mut atr = part(Kind::Atr, n)?;
    let mut mx = part(Kind::Max, n)?;
    let mut mn = part(Kind::Min, n)?;
    let len = if c.scalar { c.xs.len() } else { c.bars.len() };
    let mut big = 0.0f64;
    let mut fp = Fp::new("C15");
    c.cfg.fp(&mut fp);
    fp.u(c.scalar as u64);
    let mut asym = false;
    let mut cci_recent: Vec<[u64; 3]> = vec![];
    let (mut checked, mut ill) = (0u64, 0u64);
    let mut bitexact = 0u64;
    for i in 0..len {
        if crate::tele::due_reset() {
            // reset() of the composite and of every hand-wired part at the same step
            comp.reset();
            for part in [&mut sma, &mut sd, &mut mad, &mut fast, &mut ema1, &mut ema2, &mut ema3, &mut tr, &mut atr, &mut mx, &mut mn] {
                part.reset();
            }
            cci_recent.clear();
            ctx.label("reset_of_composite_and_parts");
        }
        crate::tele::step(&mut comp, &c.cfg);
        let (out, bar) = if c.scalar {
            let x = c.xs[i].0;
            fp.f(x);
            big = big.max(x.abs());
            (comp.next_scalar(x), RawBar::flat(x, 0.0))
        } else {
            let mut b = c.bars[i];
            // mixed use of both paths on the composite (tele.rs); the parts see the one-price bar
            let sc = k.scalar() && crate::tele::scalar_here();
            if sc {
                b = RawBar::flat(b.c, b.v);
            }
            fp.f(b.h);
            fp.f(b.l);
            fp.f(b.c);
            big = big.max(b.max_abs_price());
            if b.c != (b.h + b.l) / 2.0 {
                asym = true;
            }
            (if sc { comp.next_scalar(b.c) } else { comp.next_bar(&b) }, b)
        };
        let x = bar.c;
        let t = i + 1;
        let tol = tau(t) * big + tol_floor(n);
        // (field, got, expected, tolerance)
        let mut cmp: Vec<(&'static str, f64, f64, f64)> = Vec::with_capacity(3);
        match k {
            Kind::Bb => {
                let a = sma.next_scalar(x).x();
                let s = sd.next_scalar(x).x();
                cmp.push(("average", out.v[0], a, tol));
                let tolv = tau(t) * big * big;
                let (lo, hi) = sd_interval(DD::prod(s, s), tolv);
                let slack = 4.0 * ulp(out.v[1].abs().max(out.v[2].abs())) + 4.0 * ulp(m.abs() * hi);
                let (a1, b1) = if m >= 0.0 { (m * lo, m * hi) } else { (m * hi, m * lo) };
                for (which, hw) in [("upper", out.v[1] - out.v[0]), ("lower", out.v[0] - out.v[2])] {
                    checked += 1;
                    if !(hw >= a1 - slack && hw <= b1 + slack) {
                        ctx.fail(
                            format!("C15:BB:{}:mismatch", which),
                            format!("{} step {}: half-width({}) {:e} vs multiplier * StandardDeviation({}) = {:e} * {:e} (allowed [{:e},{:e}])", c.cfg.tag(), i, which, hw, n, m, s, a1 - slack, b1 + slack),
                        )?;
                    }
                }
            }
            Kind::SlowStoch => {
                let f = if c.scalar { fast.next_scalar(x).x() } else { fast.next_bar(&bar).x() };
                let e = ema2.next_scalar(f).x();
                cmp.push(("slow", out.v[0], e, tau(t) * big.max(100.0)));
            }
            Kind::Atr => {
                let r = if c.scalar { tr.next_scalar(x).x() } else { tr.next_bar(&bar).x() };
                cmp.push(("atr", out.v[0], ema1.next_scalar(r).x(), tol));
            }
            Kind::Macd | Kind::Ppo => {
                let f = ema1.next_scalar(x).x();
                let s = ema2.next_scalar(x).x();
                let line = if k == Kind::Macd { f - s } else { (f - s) / s * 100.0 };
                let sig = ema3.next_scalar(line).x();
                let tl = if k == Kind::Macd { tol } else { tau(t) * 100.0f64.max(line.abs()).max(sig.abs()) };
                cmp.push(("line", out.v[0], line, tl));
                cmp.push(("signal", out.v[1], sig, tl));
                cmp.push(("histogram", out.v[2], line - sig, tl));
            }
            Kind::Kc => {
                let (price, a) = if c.scalar { (x, atr.next_scalar(x).x()) } else { ((bar.h + bar.l + bar.c) / 3.0, atr.next_bar(&bar).x()) };
                let avg = ema1.next_scalar(price).x();
                let tm = tol * m.abs().max(1.0);
                cmp.push(("average", out.v[0], avg, tol));
                cmp.push(("upper", out.v[1], avg + m * a, tm));
                cmp.push(("lower", out.v[2], avg - m * a, tm));
            }
            Kind::Ce => {
                let a = atr.next_bar(&bar).x();
                let hi = mx.next_scalar(bar.h).x();
                let lo = mn.next_scalar(bar.l).x();
                let tm = tol * m.abs().max(1.0);
                cmp.push(("long", out.v[0], hi - m * a, tm));
                cmp.push(("short", out.v[1], lo + m * a, tm));
            }
            Kind::Cci => {
                let tp = (bar.h + bar.l + bar.c) / 3.0;
                let a = sma.next_scalar(tp).x();
                let d = mad.next_scalar(tp).x();
                cci_recent.push([bar.h.to_bits(), bar.l.to_bits(), bar.c.to_bits()]);
                if d == 0.0 {
                    // exactly zero deviation by the harness's own evaluation of (h+l+c)/3: decisive only if
                    // the window's bars are identical — two different bars whose typical prices coincide in
                    // one evaluation order may differ by an ulp in another, and CCI is discontinuous there
                    let w0 = cci_recent.len() - cci_recent.len().min(n);
                    if cci_recent[w0..].iter().all(|x| *x == cci_recent[w0]) {
                        cmp.push(("cci", out.v[0], 0.0, 0.0));
                    } else {
                        ill += 1;
                    }
                } else {
                    let cc = big / d;
                    if cc <= 1e6 {
                        cmp.push(("cci", out.v[0], (tp - a) / (0.015 * d), tau(t) * cc.max(1.0) / 0.015));
                    } else {
                        ill += 1;
                    }
                }
            }
            _ => unreachable!("HARNESS: kind not in C15"),
        }
        for (field, got, want, tl) in cmp {
            checked += 1;
            let ok = (got.is_nan() && want.is_nan()) || got == want || (got - want).abs() <= tl;
            if got.to_bits() == want.to_bits() {
                bitexact += 1;
            }
            if !ok {
                ctx.fail(
                    format!("C15:{}:{}:mismatch", name, field),
                    format!("{} ({} path) step {}: composite {} = {:e}, hand-wired public parts give {:e} (|diff| {:e} > tol {:e})", c.cfg.tag(), if c.scalar { "scalar" } else { "bar" }, i, field, got, want, (got - want).abs(), tl),
                )?;
            }
        }
    }
    ctx.label(&format!("kind:{}:{}", name, if c.scalar { "scalar" } else { "bar" }));
    ctx.label_n("comparisons", checked);
    ctx.label_n("comparisons_bit_identical", bitexact);
    ctx.label_n("skipped_illconditioned", ill);
    let np = k.n_periods();
    let all_equal = np > 1 && c.cfg.p.iter().all(|&q| q == c.cfg.p[0]);
    if len >= n + 2 && (c.scalar || asym) && !all_equal {
        ctx.nontrivial(fp);
        ctx.label("nontrivial");
    }
    Ok(())
}

const SK: [Kind; 6] = [Kind::Bb, Kind::SlowStoch, Kind::Atr, Kind::Macd, Kind::Kc, Kind::Ppo];
const BK: [Kind; 5] = [Kind::SlowStoch, Kind::Atr, Kind::Kc, Kind::Ce, Kind::Cci];

fn strategy(lo: usize, hi: usize) -> BoxedStrategy<Case> {
    prop_oneof![
        cfg_among(&SK, 512, multiplier_any)
            .prop_flat_map(move |cfg| {
                let dom = if matches!(cfg.kind, Kind::Ppo | Kind::SlowStoch) { Domain::Positive } else { Domain::AnySign };
                let n = cfg.n();
                let pos = dom == Domain::Positive;
                // the Bollinger half-width is judged on the variance scale, and M^2 is not representable at huge units
                let cfg_is_bb = cfg.kind == Kind::Bb;
                (Just(cfg), prop_oneof![12 => multi_stream(dom, lo, (4 * n + 40).max(lo).min(hi)), 1 => stream(if cfg_is_bb { Domain::TinyAnySign } else if pos { Domain::Huge } else { Domain::HugeScalar }, lo, (4 * n + 40).max(lo).min(hi)), 1 => stream(if pos { Domain::TinyNormal } else { Domain::TinyAnySign }, lo, (4 * n + 40).max(lo).min(hi))])
            })
            .prop_map(|(cfg, s)| {
                // PercentagePriceOscillator on a series that is negative throughout (a spread, a yield below zero): the
                // documented quotient divides by the slow average itself, sign included; every fourth PPO stream is mirrored
                let mirror = cfg.kind == Kind::Ppo && s.vals.first().map(|v| (v.to_bits() >> 5) % 4 == 0).unwrap_or(false);
                let vals: Vec<f64> = if mirror { s.vals.iter().map(|v| -v).collect() } else { s.vals };
                Case { cfg, scalar: true, xs: xs(&vals), bars: vec![] }
            }),
        cfg_among(&BK, 512, multiplier_any)
            .prop_flat_map(move |cfg| {
                let n = cfg.n();
                (Just(cfg), prop_oneof![bar_stream(false, lo, (4 * n + 40).max(lo).min(hi)), bar_stream(true, lo, (4 * n + 40).max(lo).min(hi))])
            })
            .prop_map(|(cfg, s)| Case { cfg, scalar: false, xs: vec![], bars: s.bars }),
    ]
    .boxed()
}

pub fn run(g: &mut Global) {
    g.rule = "random: proptest (composite among BB, SLOW_STOCH, ATR, MACD, PPO, KC, CE, CCI; every parameter tuple from the period mixture up to 512; multipliers of any sign; scalar streams of any sign (positive for PPO/SLOW_STOCH) or valid bars with close independent of (high+low)/2). Oracle: beside each composite the harness drives separately constructed public parts (SMA, SD, MAD, EMA, FAST_STOCH, TRUE_RANGE, ATR, MIN, MAX) fed the same stream and combines them as documented; agreement within tau(t)*M (x max(1,|multiplier|) for KC/CE levels, variance scale for the Bollinger half-width, tau*c/0.015 for CCI where c <= 1e6). Non-trivial = stream longer than n+2, bars with close != (high+low)/2 for the bar composites, parameter tuple not all equal; distinct by hash of (kind, parameters, path, inputs).".into();
    g.assumptions = vec!["the parts are the real public indicators of ta; a defect shared by a composite and its part is invisible here and is the business of C01-C03".into()];
    g.random("random", g.tier.pick(700000, 4000000), &|| strategy(1, 2000), &check);
    // identity events (tele.rs): at one or two steps the instance is replaced by its clone, by a used instance
    // (same or longer periods) that clone_from()s it, or by its serde round trip; nothing may change
    g.random("events", g.tier.pick(300000, 800000), &|| crate::tele::wrap_resets(strategy(1, 600)), &|t: &crate::tele::TCase<Case>, ctx: &mut Ctx| crate::tele::check_wrapped(t, ctx, if t.case.scalar { t.case.xs.len() } else { t.case.bars.len() }, t.case.cfg.n(), check));
    if g.tier == Tier::Thorough {
        g.random("long", 800, &|| strategy(4000, 10000), &check);
    }
    // composites obtained through Default::default() against parts built with the documented default
    // parameters (a Default assembled from its parts' own defaults would carry other periods)
    const DK: [(Kind, bool); 10] = [(Kind::Bb, true), (Kind::SlowStoch, true), (Kind::SlowStoch, false), (Kind::Atr, false), (Kind::Macd, true), (Kind::Ppo, true), (Kind::Kc, false), (Kind::Kc, true), (Kind::Ce, false), (Kind::Cci, false)];
    let seedd = g.seed;
    g.exhaustive(
        "defaults",
        10 * 4,
        &move |i| {
            let (kind, scalar) = DK[(i % 10) as usize];
            let dp = kind.default_params();
            let cfg = Cfg { kind, p: dp.p[..kind.n_periods()].to_vec(), m: X(dp.m) };
            let mut gen = crate::props::c13::Gen::new(seedd ^ (i + 1).wrapping_mul(0x9E3779B97F4A7C15), [0usize, 3, 1, 4][(i / 10) as usize % 4], 3.7, 5);
            if scalar {
                DCase { case: Case { cfg, scalar: true, xs: (0..200).map(|_| X(gen.next())).collect(), bars: vec![] } }
            } else {
                DCase { case: Case { cfg, scalar: false, xs: vec![], bars: (0..200).map(|_| gen.bar()).collect() } }
            }
        },
        &|d: &DCase, ctx: &mut Ctx| check_with(&d.case, ctx, true),
    );
    // sleep and wake (see hist::sleep_wake_bars): the composite and its parts must also agree on the bar on
    // which activity resumes after the averages have decayed through the subnormal range
    let seed1 = g.seed;
    let swk: Vec<(Kind, usize, bool)> = vec![(Kind::Atr, 2, false), (Kind::Atr, 3, true), (Kind::Atr, 14, false), (Kind::Kc, 3, false), (Kind::Kc, 14, true), (Kind::Ce, 3, false), (Kind::Ce, 14, false), (Kind::SlowStoch, 3, false), (Kind::Macd, 3, true), (Kind::Ppo, 3, true), (Kind::Bb, 3, true), (Kind::Cci, 5, false)];
    let nsw = swk.len() as u64;
    g.exhaustive(
        "sleep_wake",
        nsw * 8,
        &move |i| {
            let (kind, n, scalar) = swk[(i % nsw) as usize];
            let flat = crate::hist::SLEEP_LENS[(i / nsw) as usize % 8];
            let bars = crate::hist::sleep_wake_bars(seed1 ^ i.wrapping_mul(0x9E3779B97F4A7C15), flat, [100.0, 0.37, 1e4][(i % 3) as usize]);
            let cfg = crate::hist::cfg_small(kind, n);
            if scalar {
                Case { cfg, scalar: true, xs: bars.iter().map(|b| X(b.c)).collect(), bars: vec![] }
            } else {
                Case { cfg, scalar: false, xs: vec![], bars }
            }
        },
        &check,
    );
    // the wake-up bar placed on, just before and just after the first step at which ATR(n) is subnormal
    // (the averages of movement pass through the subnormal range only once, for a few dozen steps)
    let wk = [(Kind::Atr, false), (Kind::Atr, true), (Kind::Kc, false), (Kind::Ce, false)];
    g.exhaustive(
        "wake_at_subnormal",
        4 * 4 * 10,
        &move |i| {
            let (kind, scalar) = wk[(i % 4) as usize];
            let n = [2usize, 3, 5, 14][((i / 4) % 4) as usize];
            let d = crate::hist::WAKE_OFFSETS[(i / 16) as usize % 10];
            let bars = crate::hist::sleep_wake_at_subnormal(seed1 ^ (i % 16).wrapping_mul(0x9E3779B97F4A7C15), 100.0, n, d);
            let cfg = crate::hist::cfg_small(kind, n);
            if scalar {
                Case { cfg, scalar: true, xs: bars.iter().map(|b| X(b.c)).collect(), bars: vec![] }
            } else {
                Case { cfg, scalar: false, xs: vec![], bars }
            }
        },
        &check,
    );
    // one composite instance (and its hand-wired parts) for 140 000 inputs: periods 1, 2 and 3 turn
    // their rings more than 2^16 times, which is where occasional re-synchronisations would fire
    let seed = g.seed;
    let lk: [(Kind, bool); 10] = [(Kind::Bb, true), (Kind::SlowStoch, true), (Kind::SlowStoch, false), (Kind::Atr, false), (Kind::Macd, true), (Kind::Ppo, true), (Kind::Kc, false), (Kind::Kc, true), (Kind::Ce, false), (Kind::Cci, false)];
    g.exhaustive(
        "long_turns",
        10 * 3 * g.tier.pick(1, 3),
        &move |i| {
            let (kind, scalar) = lk[(i % 10) as usize];
            let n = ((i / 10) % 3) as usize + 1;
            let regime = [0usize, 3, 4][((i / 30) % 3) as usize];
            let mut s = seed ^ (i + 21).wrapping_mul(0xA0761D6478BD642F);
            let sd = splitmix(&mut s);
            let mut gen = crate::props::c13::Gen::new(sd, regime, [0.37, 85.18, 1e4][(sd % 3) as usize], 2 + n);
            let len = 70_000 * n;
            let cfg = crate::hist::cfg_small(kind, n);
            if scalar {
                Case { cfg, scalar: true, xs: (0..len).map(|_| X(gen.next())).collect(), bars: vec![] }
            } else {
                Case { cfg, scalar: false, xs: vec![], bars: (0..len).map(|_| gen.bar()).collect() }
            }
        },
        &check,
    );
    if g.tier == Tier::Thorough {
        g.fuzz_stage("ops_pred", Some(3), 600_000, "random", &|b| crate::fuzzdec::decode_c15(b), &check);
    }
}
