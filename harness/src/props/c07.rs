//! C07 — bounded oscillators stay inside their documented range.

use crate::adapter::{Ind, Kind, RawBar};
use crate::fw::*;
use crate::gen::*;
use crate::props::c03::{balpha, Case, SEP};
use crate::refs::*;
use proptest::prelude::*;

const SLACK: f64 = 1e-9;

pub fn check(c: &Case, ctx: &mut Ctx) -> Result<(), Failure> {
    let mut ind = Ind::build(c.cfg.kind, &c.cfg.params()).map_err(|_| Failure { signature: "C07:harness".into(), detail: "HARNESS build".into() })?;
    check_on(c, ctx, &mut ind)
}

/// the same range claims after `reset()` on the same instance (the slack of the MoneyFlowIndex clause is stated
/// "since reset"): the stream is cut at the reset positions and every stretch is judged as a stream of its own
pub fn check_resets(r: &crate::props::c03::RCase, ctx: &mut Ctx) -> Result<(), Failure> {
    let c = &r.case;
    let mut ind = Ind::build(c.cfg.kind, &c.cfg.params()).map_err(|_| Failure { signature: "C07:harness".into(), detail: "HARNESS build".into() })?;
    let len = if c.scalar { c.xs.len() } else { c.bars.len() };
    let mut cuts: Vec<usize> = r.resets.iter().copied().filter(|&x| x > 0 && x < len).collect();
    cuts.sort_unstable();
    cuts.dedup();
    cuts.push(len);
    let mut a = 0usize;
    for (j, &b) in cuts.iter().enumerate() {
        if j > 0 {
            ind.reset();
            ctx.label("segments_after_reset");
        }
        let mut seg = c.clone();
        if c.scalar {
            seg.xs = c.xs[a..b].to_vec();
        } else {
            seg.bars = c.bars[a..b].to_vec();
        }
        let was = ctx.counting;
        ctx.counting = was && j + 1 == cuts.len();
        let res = check_on(&seg, ctx, &mut ind);
        ctx.counting = was;
        res?;
        a = b;
    }
    Ok(())
}

pub fn check_on(c: &Case, ctx: &mut Ctx, ind: &mut Ind) -> Result<(), Failure> {
    let k = c.cfg.kind;
    let n = c.cfg.n();
    let name = k.name();
    let len = if c.scalar { c.xs.len() } else { c.bars.len() };
    let mut fp = Fp::new("C07");
    c.cfg.fp(&mut fp);
    fp.u(c.scalar as u64);
    let mut hist: Vec<f64> = vec![];
    let mut bars: Vec<RawBar> = vec![];
    let mut highs: Vec<f64> = vec![];
    let mut lows: Vec<f64> = vec![];
    let mut rsi = RsiRef::new(n.max(1));
    let mut mfi_big = 0.0f64;
    let mut near_bound = false;
    let (mut checked, mut skipped) = (0u64, 0u64);
    for i in 0..len {
        crate::tele::step(ind, &c.cfg);
        let (out, bar) = if c.scalar {
            let x = c.xs[i].0;
            fp.f(x);
            (if crate::tele::scalar_here() { ind.next_bar(&RawBar::flat(x, 0.0)) } else { ind.next_scalar(x) }, RawBar::flat(x, 0.0))
        } else {
            let mut b = c.bars[i];
            // mixed use of both paths on one instance (tele.rs): this step goes through next(close); the
            // reference sees the one-price bar that the scalar path stands for
            let sc = k.scalar() && crate::tele::scalar_here();
            if sc {
                b = RawBar::flat(b.c, b.v);
            }
            fp.f(b.h);
            fp.f(b.l);
            fp.f(b.c);
            fp.f(b.v);
            (if sc { ind.next_scalar(b.c) } else { ind.next_bar(&b) }, b)
        };
        let x = bar.c;
        hist.push(x);
        bars.push(bar);
        highs.push(bar.h);
        lows.push(bar.l);
        let t = hist.len();
        let w0 = t - t.min(n);
        // (applies, lo, hi)
        let (applies, lo, hi) = match k {
            Kind::Rsi => {
                let _ = rsi.next(x);
                // the range holds wherever the ratio is defined — also where both averages have decayed into the
                // subnormal range (U/(U+D) of non-negative numbers; when both reach exactly 0 the documented
                // neutral 50 is in range as well), so no gate on the reference denominator is needed here
                (true, -SLACK, 100.0 + SLACK)
            }
            Kind::FastStoch => {
                let (mx, mn) = if c.scalar { (wmax(&hist[w0..]), wmin(&hist[w0..])) } else { (wmax(&highs[w0..]), wmin(&lows[w0..])) };
                (mx > mn, -SLACK, 100.0 + SLACK)
            }
            // EMA of in-range values (flat windows contribute exactly 50, also in range)
            Kind::SlowStoch => (true, -SLACK, 100.0 + SLACK),
            Kind::Er => (er_ref(&hist, n).is_some(), -SLACK, 1.0 + SLACK),
            Kind::Mfi => {
                if t == 1 {
                    (true, 0.0, 100.0)
                } else {
                    let m = mfi_ref(&bars, n, SEP);
                    let a = &bars[t - 2];
                    if may_flow(a, &bar) {
                        mfi_big = mfi_big.max((tp_dd(&bar).to_f64() * bar.v).abs());
                    }
                    let den = m.pmf.add(m.nmf).to_f64();
                    if den > 0.0 && !m.tainted {
                        let cc = mfi_big.max(m.max_flow_in_window) / den;
                        let s = 100.0 * tau(t) * cc;
                        (cc <= 1000.0, -s, 100.0 + s)
                    } else {
                        (false, 0.0, 0.0)
                    }
                }
            }
            _ => unreachable!("HARNESS: kind not in C07"),
        };
        if !applies {
            skipped += 1;
            continue;
        }
        checked += 1;
        let v = out.x();
        let top = if k == Kind::Er { 1.0 } else { 100.0 };
        if (v - lo).abs() <= 1e-6 * top || (v - hi).abs() <= 1e-6 * top {
            near_bound = true;
        }
        if !(v >= lo && v <= hi) {
            ctx.fail(
                format!("C07:{}:out_of_range", name),
                format!(
                    "{} ({} path) step {}: output {:e} outside [{:e}, {:e}]; last inputs {:?}",
                    c.cfg.tag(), if c.scalar { "scalar" } else { "bar" }, i, v, lo, hi,
                    &bars[t.saturating_sub(n.saturating_add(2))..].iter().map(|b| if c.scalar { vec![b.c] } else { vec![b.h, b.l, b.c, b.v] }).collect::<Vec<_>>()
                ),
            )?;
        }
    }
    ctx.label(&format!("kind:{}:{}", name, if c.scalar { "scalar" } else { "bar" }));
    ctx.label_n("steps_checked", checked);
    ctx.label_n("steps_skipped_zero_or_illconditioned_denominator", skipped);
    if checked > 0 && (near_bound || n == 1) {
        ctx.nontrivial(fp);
        ctx.label("nontrivial");
        if near_bound {
            ctx.label("touched_a_bound");
        }
    }
    Ok(())
}

const SALPHA: [f64; 4] = [1.0, 1.0 + 9.5367431640625e-7, 2.0, 5.0]; // 1 + 2^-20

fn scalar_cfgs() -> Vec<Cfg> {
    let mut v = vec![];
    for n in 1..=5usize {
        for kind in [Kind::Rsi, Kind::FastStoch, Kind::Er] {
            v.push(Cfg { kind, p: vec![n], m: X(0.0) });
        }
        v.push(Cfg { kind: Kind::SlowStoch, p: vec![n, 1], m: X(0.0) });
        v.push(Cfg { kind: Kind::SlowStoch, p: vec![n, 3], m: X(0.0) });
    }
    v
}
fn bar_cfgs() -> Vec<Cfg> {
    let mut v = vec![];
    for n in 1..=5usize {
        for kind in [Kind::FastStoch, Kind::Mfi] {
            v.push(Cfg { kind, p: vec![n], m: X(0.0) });
        }
        v.push(Cfg { kind: Kind::SlowStoch, p: vec![n, 2], m: X(0.0) });
    }
    v
}

const SK: [Kind; 4] = [Kind::Rsi, Kind::FastStoch, Kind::SlowStoch, Kind::Er];
const BK: [Kind; 3] = [Kind::FastStoch, Kind::SlowStoch, Kind::Mfi];
fn no_mult() -> BoxedStrategy<f64> {
    Just(0.0).boxed()
}

fn reset_strategy() -> BoxedStrategy<crate::props::c03::RCase> {
    use crate::props::c03::{rescale_stretches, RCase};
    prop_oneof![
        1 => cfg_among(&SK, 40, no_mult)
            .prop_flat_map(|cfg| {
                let n = cfg.n();
                (Just(cfg), prop_oneof![3 => stream(Domain::PositiveGrid, 4 * n + 10, 8 * n + 60), 1 => stream(Domain::Positive, 4 * n + 10, 8 * n + 60)], proptest::collection::vec(any::<u16>(), 1..4), proptest::collection::vec(prop_oneof![1 => Just(0u8), 2 => 0u8..36], 3))
            })
            .prop_map(|(cfg, s, pk, sc)| {
                let resets = crate::hist::reset_positions(cfg.n(), s.vals.len(), &pk);
                let mut x = xs(&s.vals);
                rescale_stretches(&mut x, &mut [], &resets, &sc);
                RCase { case: Case { cfg, scalar: true, xs: x, bars: vec![], stride: 0 }, resets }
            }),
        2 => cfg_among(&BK, 40, no_mult)
            .prop_flat_map(|cfg| {
                let n = cfg.n();
                (Just(cfg), prop_oneof![3 => bar_stream(true, 4 * n + 10, 8 * n + 60), 1 => bar_stream(false, 4 * n + 10, 8 * n + 60)], proptest::collection::vec(any::<u16>(), 1..4), proptest::collection::vec(prop_oneof![1 => Just(0u8), 2 => 0u8..36], 3))
            })
            .prop_map(|(cfg, s, pk, sc)| {
                let resets = crate::hist::reset_positions(cfg.n(), s.bars.len(), &pk);
                let mut bars = s.bars;
                rescale_stretches(&mut [], &mut bars, &resets, &sc);
                RCase { case: Case { cfg, scalar: false, xs: vec![], bars, stride: 0 }, resets }
            }),
    ]
    .boxed()
}

fn strategy(lo: usize, hi: usize) -> BoxedStrategy<Case> {
    prop_oneof![
        cfg_among(&SK, 512, no_mult)
            .prop_flat_map(move |cfg| { let h2 = hi.max(3 * cfg.n() + 40); (Just(cfg), prop_oneof![6 => stream(Domain::PositiveGrid, lo, h2), 6 => stream(Domain::Positive, lo, h2), 1 => stream(Domain::TinyPositive, lo, h2), 1 => stream(Domain::Huge, lo, h2)]) })
            .prop_map(|(cfg, s)| Case { cfg, scalar: true, xs: xs(&s.vals), bars: vec![], stride: 0 }),
        cfg_among(&BK, 512, no_mult)
            .prop_flat_map(move |cfg| { let h2 = hi.max(3 * cfg.n() + 40); (Just(cfg), prop_oneof![6 => bar_stream(true, lo, h2), 6 => bar_stream(false, lo, h2), 1 => bar_stream_tiny(lo, h2)]) })
            .prop_map(|(cfg, s)| Case { cfg, scalar: false, xs: vec![], bars: s.bars, stride: 0 }),
    ]
    .boxed()
}

pub fn run(g: &mut Global) {
    g.rule = "exhaustive: scalar sequences over {1, 1+2^-20, 2, 5} for RSI, FAST_STOCH, SLOW_STOCH, ER with periods 1..=5; bar sequences over a 6-bar alphabet for FAST_STOCH, SLOW_STOCH, MFI; random: positive (grid-valued or free) prices / valid bars in regimes that push the extremes (long monotone runs, alternating extremes, spikes, near-flat with one-tick increments, volumes over 12 decades), periods to 512, streams to 5 000 (quick) / 50 000 (thorough). Oracle: range predicate [0,100] / [0,1] with 1e-9 slack (MFI: 100*tau(t)*c, applied iff c <= 1000), at every step whose double-double reference denominator is non-zero. Non-trivial = at least one checked output within 1e-6 of a bound, or period 1; distinct by hash of (kind, parameters, path, inputs).".into();
    g.assumptions = vec![
        "RSI: the range is required at every step (U/(U+D) of non-negative averages, or the neutral 50 once both are exactly 0)".into(),
        "MFI windows with an ambiguous typical-price comparison are skipped (DESIGN.md section 3)".into(),
        "bars are valid (low <= close <= high), as the FastStochastic clause requires".into(),
    ];
    let sc = scalar_cfgs();
    let bc = bar_cfgs();
    let d1 = g.tier.pick(7usize, 9usize);
    let per = ipow(4, d1);
    g.exhaustive(
        "enum_scalar",
        per * sc.len() as u64,
        &move |i| {
            let cfg = sc[(i / per) as usize].clone();
            let d = digits(i % per, 4, d1);
            Case { cfg, scalar: true, xs: d.iter().map(|&j| X(SALPHA[j])).collect(), bars: vec![], stride: 0 }
        },
        &check,
    );
    let d2 = g.tier.pick(6usize, 8usize);
    let perb = ipow(6, d2);
    let ba = balpha();
    g.exhaustive(
        "enum_bars",
        perb * bc.len() as u64,
        &move |i| {
            let cfg = bc[(i / perb) as usize].clone();
            let d = digits(i % perb, 6, d2);
            Case { cfg, scalar: false, xs: vec![], bars: d.iter().map(|&j| ba[j]).collect(), stride: 0 }
        },
        &check,
    );
    g.random("random", g.tier.pick(40000, 1000000), &|| strategy(1, 400), &check);
    // identity events (tele.rs): at one or two steps the instance is replaced by its clone, by a used instance
    // (same or longer periods) that clone_from()s it, or by its serde round trip; nothing may change
    g.random("events", g.tier.pick(12000, 200000), &|| crate::tele::wrap(strategy(1, 400)), &|t: &crate::tele::TCase<Case>, ctx: &mut Ctx| crate::tele::check_wrapped(t, ctx, if t.case.scalar { t.case.xs.len() } else { t.case.bars.len() }, t.case.cfg.n(), check));
    // reset() on the same instance, the next stretch possibly in another price / volume unit (another instrument)
    g.random("resets", g.tier.pick(30000, 300000), &reset_strategy, &check_resets);
    // MoneyFlowIndex on an instrument whose money flow (price x volume) is itself near the top of the f64 range while
    // every price, every flow and every window total is finite: prices 1e150 x (80..120), volumes 1e150 x (1..1e4),
    // periods 1..=10 — scaling the ratio before dividing overflows there and nowhere else
    let seedh = g.seed;
    g.exhaustive(
        "huge_flows",
        10 * 40,
        &move |i| {
            let n = (i % 10) as usize + 1;
            let mut st = seedh ^ (i + 311).wrapping_mul(0x9E3779B97F4A7C15);
            let mut mid = 100.0f64;
            let bars: Vec<RawBar> = (0..200)
                .map(|_| {
                    mid = (mid * (1.0 + 0.03 * (unit(&mut st) - 0.5))).clamp(80.0, 120.0);
                    let (h, l) = (mid * (1.0 + 0.01 * unit(&mut st)), mid * (1.0 - 0.01 * unit(&mut st)));
                    let c = l + (h - l) * unit(&mut st);
                    let v = 10f64.powf(4.0 * unit(&mut st));
                    RawBar { o: c * 1e150, h: h * 1e150, l: l * 1e150, c: c * 1e150, v: v * 1e150 }
                })
                .collect();
            Case { cfg: Cfg { kind: Kind::Mfi, p: vec![n], m: X(0.0) }, scalar: false, xs: vec![], bars, stride: 0 }
        },
        &check,
    );
    // window extremes at every ring phase (hist::extreme_stress): a stale or missed extreme puts %K outside
    // [0, 100] as soon as the price leaves the remembered range
    const XP: [usize; 16] = [2, 3, 5, 8, 31, 64, 65, 100, 127, 128, 129, 200, 256, 257, 511, 1025];
    let seedx = g.seed;
    g.exhaustive(
        "extreme_stress",
        16 * 6 * 2 * 96,
        &move |i| {
            let phi = (i % 96) as usize;
            let r = i / 96;
            let slow = r % 2 == 1;
            let r = r / 2;
            let pattern = (r % 6) as usize;
            let n = XP[(r / 6) as usize];
            let phase = if n <= 96 { phi % n } else if phi == 0 { 0 } else if phi == 1 { n - 1 } else { (phi * n) / 96 };
            let vals = crate::hist::extreme_stress(n, phase, pattern, seedx ^ i.wrapping_mul(0x9E3779B97F4A7C15));
            let cfg = if slow { Cfg { kind: Kind::SlowStoch, p: vec![n, 3], m: X(0.0) } } else { Cfg { kind: Kind::FastStoch, p: vec![n], m: X(0.0) } };
            if i % 3 == 0 {
                // as bars: high/low a little around the value, close = value
                let bars = vals.iter().map(|&x| RawBar { o: x, h: x * 1.001, l: x * 0.999, c: x, v: 1.0 }).collect();
                Case { cfg, scalar: false, xs: vec![], bars, stride: 0 }
            } else {
                Case { cfg, scalar: true, xs: xs(&vals), bars: vec![], stride: 0 }
            }
        },
        &check,
    );
    // one uninterrupted life past 2^16 inputs, the range checked at every step: a periodic rebuild or a counter
    // that misfires once every 2^k inputs produces a single out-of-range output
    const LK: [Kind; 5] = [Kind::Rsi, Kind::FastStoch, Kind::SlowStoch, Kind::Mfi, Kind::Er];
    let seedl = g.seed;
    let ll = g.tier.pick(70_000usize, 300_000usize);
    g.exhaustive(
        "long_life",
        5 * 3 * 5,
        &move |i| {
            let kind = LK[(i % 5) as usize];
            let r = i / 5;
            let n = [2usize, 14, 33][(r % 3) as usize];
            // regime 5: strictly monotone ramps of 6 500 steps each, alternately falling and rising (an average of
            // movement in one direction decays for thousands of steps while the other stays put)
            let regime = [0usize, 3, 1, 2, 5][(r / 3) as usize % 5];
            let mut gen = crate::props::c13::Gen::new(seedl ^ (i + 3).wrapping_mul(0x9E3779B97F4A7C15), regime, 1.7, if regime == 5 { 6500 } else { 2 + n });
            let cfg = if kind == Kind::SlowStoch { Cfg { kind, p: vec![n, 3], m: X(0.0) } } else { Cfg { kind, p: vec![n], m: X(0.0) } };
            if kind.scalar() && i % 2 == 0 {
                Case { cfg, scalar: true, xs: (0..ll).map(|_| X(gen.next())).collect(), bars: vec![], stride: 0 }
            } else {
                Case { cfg, scalar: false, xs: vec![], bars: (0..ll).map(|_| gen.bar()).collect(), stride: 0 }
            }
        },
        &check,
    );
    let (lo, hi, cnt) = g.tier.pick((2000usize, 5000usize, 160u32), (20000usize, 50000usize, 1600u32));
    g.random("long", cnt, &move || strategy(lo, hi), &check);
    // window-less period arguments at the top of the usize range (2^31, 2^32, 2^32+1, 2^33, 2^40, 2^53+1, 2^63,
    // MAX-1, MAX): valid configurations like any other — a period converted through a narrower integer type or
    // rounded on its way to the smoothing factor builds without complaint and computes something else
    const BP: [usize; 9] = [1 << 31, 1 << 32, (1 << 32) + 1, 1 << 33, 1 << 40, (1 << 53) + 1, usize::MAX / 2 + 1, usize::MAX - 1, usize::MAX];
    g.exhaustive(
        "boundary_periods",
        9 * 2,
        &|i| {
            let b = BP[(i % 9) as usize];
            let cfg = if i / 9 == 0 { Cfg { kind: Kind::Rsi, p: vec![b], m: X(0.0) } } else { Cfg { kind: Kind::SlowStoch, p: vec![5, b], m: X(0.0) } };
            let vals: Vec<f64> = (0..80).map(|j| 100.0 + if j % 2 == 0 { 10.0 } else { -7.5 } + (j % 9) as f64 * 0.375).collect();
            Case { cfg, scalar: true, xs: xs(&vals), bars: vec![], stride: 0 }
        },
        &check,
    );
    // a long exactly flat tail after some movement, RSI with periods 1..=8: the averages of gains and losses decay
    // through the subnormal range (to exactly 0 for periods 1..=3); the ratio is defined all the way down and the
    // range holds at every step
    g.exhaustive(
        "flat_tails",
        8 * 6,
        &|i| {
            let n = (i % 8) as usize + 1;
            let v = (i / 8) as usize;
            let mut vals: Vec<f64> = match v % 3 {
                0 => vec![10.0, 10.5, 10.0, 9.5],
                1 => vec![85.18, 86.0, 84.3, 85.0, 85.9, 85.9, 80.1],
                _ => vec![0.1, 0.3, 0.2],
            };
            let level = [10.25, 85.18, 0.1][v % 3] * if v >= 3 { 1.0 } else { 1.0 + 1.0 / 64.0 };
            vals.extend(std::iter::repeat(level).take(2600));
            Case { cfg: Cfg { kind: Kind::Rsi, p: vec![n], m: X(0.0) }, scalar: true, xs: xs(&vals), bars: vec![], stride: 0 }
        },
        &check,
    );
    if g.tier == Tier::Thorough {
        g.fuzz_stage("ops_pred", Some(0), 600_000, "random", &|b| crate::fuzzdec::decode_c07(b), &check);
    }
}
