//! C06 — serialize/deserialize at any point of a stream preserves all future outputs.

use crate::adapter::{Ind, Kind, RawBar, ALL_KINDS};
use crate::fw::*;
use crate::gen::*;
use crate::hist::*;
use proptest::collection::vec;
use proptest::prelude::*;
use serde::{Deserialize, Serialize};
use ta::{Close, DataItem, High, Low, Open, Volume};

#[derive(Clone, Debug, Serialize, Deserialize)]
pub enum SOp {
    Next(Inp),
    Reset,
    /// serialize + deserialize here; the restored copy replaces the live one (chained round-trips),
    /// while a never-serialized shadow continues in lock-step
    Checkpoint,
}

#[derive(Clone, Debug, Serialize, Deserialize)]
pub struct Case {
    pub cfg: Cfg,
    pub history: Vec<SOp>,
    pub continuation: Vec<Inp>,
}

const REL: f64 = 1e-12;

fn roundtrip(k: Kind, a: &Ind) -> Result<(Ind, Vec<u8>), String> {
    let bytes = a.ser()?;
    // how the bytes travel is chosen from the bytes themselves (a pure function of the case): plain
    // bincode::deserialize, through an io::Read source, and/or framed between other values of one payload
    let h = bytes.iter().fold(0xcbf29ce484222325u64, |h, &b| (h ^ b as u64).wrapping_mul(0x100000001b3));
    let b = match (h >> 20) % 4 {
        0 => Ind::de(k, &bytes)?,
        1 => a.roundtrip_via(true, false)?,
        2 => a.roundtrip_via(false, true)?,
        _ => a.roundtrip_via(true, true)?,
    };
    Ok((b, bytes))
}

pub fn check(c: &Case, ctx: &mut Ctx) -> Result<(), Failure> {
    let k = c.cfg.kind;
    let name = k.name();
    let p = c.cfg.params();
    let mut live = Ind::build(k, &p).map_err(|_| Failure { signature: "C06:harness".into(), detail: "HARNESS build".into() })?;
    let mut shadow = live.clone();
    let mut fp = Fp::new("C06");
    c.cfg.fp(&mut fp);
    let mut since_reset = 0usize;
    let mut just_reset = false;
    let mut cps = 0;
    let mut json_ok = true;
    let w = flush_len(&c.cfg);
    let mut classes: Vec<&'static str> = vec![];
    // a final checkpoint is always taken after the history
    let hist: Vec<&SOp> = c.history.iter().chain(std::iter::once(&SOp::Checkpoint)).collect();
    for (i, op) in hist.iter().enumerate() {
        match op {
            SOp::Next(inp) => {
                fp.f(inp.bar.c);
                fp.f(inp.bar.h);
                fp.u(inp.scalar as u64);
                let a = feed(&mut live, inp);
                let b = feed(&mut shadow, inp);
                let fin = |v: f64| v.is_finite() && v.abs() <= 1e150;
                json_ok &= fin(inp.bar.o) && fin(inp.bar.h) && fin(inp.bar.l) && fin(inp.bar.c) && fin(inp.bar.v) && a.vals().iter().all(|v| v.is_finite());
                since_reset += 1;
                just_reset = false;
                if !same_out(&a, &b, REL) {
                    ctx.fail(
                        format!("C06:{}:restored_diverges", name),
                        format!("{}: history op {}: restored instance (after {} round-trips) returned {:?}, never-serialized shadow {:?} on {:?}", c.cfg.tag(), i, cps, a.vals(), b.vals(), inp),
                    )?;
                }
            }
            SOp::Reset => {
                fp.u(0xDEAD);
                live.reset();
                shadow.reset();
                since_reset = 0;
                just_reset = true;
            }
            SOp::Checkpoint => {
                fp.u(0xC4EC);
                cps += 1;
                let class = if since_reset == 0 {
                    if just_reset {
                        "checkpoint:just_reset"
                    } else {
                        "checkpoint:fresh"
                    }
                } else if since_reset < w {
                    "checkpoint:warming_up"
                } else if since_reset == w {
                    "checkpoint:exactly_full"
                } else {
                    "checkpoint:wrapped"
                };
                classes.push(class);
                let (restored, bytes) = match roundtrip(k, &live) {
                    Ok(x) => x,
                    Err(e) => {
                        ctx.fail(format!("C06:{}:serde_error", name), format!("{}: serialize/deserialize failed at history op {}: {}", c.cfg.tag(), i, e))?;
                        return Ok(());
                    }
                };
                if restored.display() != live.display() || restored.period() != live.period() || restored.multiplier().map(f64::to_bits) != live.multiplier().map(f64::to_bits) {
                    ctx.fail(
                        format!("C06:{}:params_changed", name),
                        format!("{}: restored Display {:?} period {:?} multiplier {:?} vs original {:?} {:?} {:?}", c.cfg.tag(), restored.display(), restored.period(), restored.multiplier(), live.display(), live.period(), live.multiplier()),
                    )?;
                }
                match restored.ser() {
                    Ok(b2) if b2 == bytes => {}
                    Ok(_) => ctx.fail(format!("C06:{}:reserialize_differs", name), format!("{}: re-serializing the restored instance gives different bytes (history op {})", c.cfg.tag(), i))?,
                    Err(e) => ctx.fail(format!("C06:{}:serde_error", name), format!("re-serialize failed: {}", e))?,
                }
                // a second, self-describing format (serde_json), where the history so far is representable in it:
                // only finite inputs of moderate size since construction (JSON has no NaN/inf; DESIGN 4.0)
                if json_ok {
                    match live.roundtrip_json((bytes.len() + cps) % 2 == 1) {
                        Ok(Some(mut z)) => {
                            ctx.label("json_roundtrip");
                            if z.display() != live.display() || z.period() != live.period() || z.multiplier().map(f64::to_bits) != live.multiplier().map(f64::to_bits) {
                                ctx.fail(format!("C06:{}:params_changed", name), format!("{}: restored from JSON: Display {:?} period {:?} vs original {:?} {:?}", c.cfg.tag(), z.display(), z.period(), live.display(), live.period()))?;
                            }
                            let mut x = live.clone();
                            for (s, inp) in c.continuation.iter().enumerate() {
                                let ox = feed(&mut x, inp);
                                let oz = feed(&mut z, inp);
                                if !same_out(&ox, &oz, REL) {
                                    ctx.fail(
                                        format!("C06:{}:restored_diverges", name),
                                        format!("{}: checkpoint at history op {} ({} inputs since reset, {}) through serde_json: continuation step {} input {:?}: original {:?}, restored {:?}", c.cfg.tag(), i, since_reset, class, s, inp, ox.vals(), oz.vals()),
                                    )?;
                                    break;
                                }
                            }
                        }
                        Ok(None) => ctx.label("json_state_not_representable"),
                        Err(e) => ctx.fail(format!("C06:{}:serde_error", name), format!("{}: at history op {}: {}", c.cfg.tag(), i, e))?,
                    }
                }
                // continuation on copies of (never-serialized state) and (restored state)
                let mut x = live.clone();
                let mut y = restored.clone();
                for (s, inp) in c.continuation.iter().enumerate() {
                    let ox = feed(&mut x, inp);
                    let oy = feed(&mut y, inp);
                    if !same_out(&ox, &oy, REL) {
                        ctx.fail(
                            format!("C06:{}:restored_diverges", name),
                            format!(
                                "{}: checkpoint at history op {} ({} inputs since reset, {}): continuation step {} input {:?}: original {:?}, restored {:?}",
                                c.cfg.tag(), i, since_reset, class, s, inp, ox.vals(), oy.vals()
                            ),
                        )?;
                        break;
                    }
                }
                live = restored;
            }
        }
    }
    for inp in &c.continuation {
        fp.f(inp.bar.c);
    }
    ctx.label(&format!("kind:{}", name));
    for cl in &classes {
        ctx.label(cl);
    }
    if classes.iter().any(|c| *c != "checkpoint:fresh") && c.continuation.len() >= w + 2 {
        ctx.nontrivial(fp);
        ctx.label("nontrivial");
    }
    Ok(())
}

// DataItem round-trip
#[derive(Clone, Debug, Serialize, Deserialize)]
pub struct DCase {
    pub bar: RawBar,
}
pub fn check_item(c: &DCase, ctx: &mut Ctx) -> Result<(), Failure> {
    let item = match c.bar.to_data_item() {
        Some(i) => i,
        None => {
            ctx.label("dataitem_rejected_by_builder");
            return Ok(());
        }
    };
    let bytes = bincode::serialize(&item).map_err(|e| Failure { signature: "C06:DataItem:serde_error".into(), detail: e.to_string() })?;
    let back: DataItem = bincode::deserialize(&bytes).map_err(|e| Failure { signature: "C06:DataItem:serde_error".into(), detail: e.to_string() })?;
    let bits = |d: &DataItem| [d.open().to_bits(), d.high().to_bits(), d.low().to_bits(), d.close().to_bits(), d.volume().to_bits()];
    if !(back == item) || bits(&back) != bits(&item) {
        ctx.fail("C06:DataItem:roundtrip_differs".into(), format!("DataItem {:?} round-trips to {:?}", item, back))?;
    }
    // second format: serde_json (finite fields only — JSON has no NaN/inf)
    if bits(&item).iter().all(|b| f64::from_bits(*b).is_finite()) {
        let text = serde_json::to_string(&item).map_err(|e| Failure { signature: "C06:DataItem:serde_error".into(), detail: e.to_string() })?;
        let back: DataItem = serde_json::from_str(&text).map_err(|e| Failure { signature: "C06:DataItem:serde_error".into(), detail: format!("{}: {}", text, e) })?;
        if !(back == item) || bits(&back) != bits(&item) {
            ctx.fail("C06:DataItem:roundtrip_differs".into(), format!("DataItem {:?} round-trips through serde_json to {:?}", item, back))?;
        }
        ctx.label("dataitem_json_roundtrips");
    }
    let mut fp = Fp::new("C06D");
    for b in bits(&item) {
        fp.u(b);
    }
    ctx.nontrivial(fp);
    ctx.label("dataitem_roundtrips");
    Ok(())
}

fn hletter(j: usize) -> SOp {
    match j {
        0 => SOp::Next(letter(1.0)),
        1 => SOp::Next(letter(4.0)),
        2 => SOp::Next(letter_bar(2.5)),
        _ => SOp::Reset,
    }
}

fn strategy(cap: usize, long: bool) -> BoxedStrategy<Case> {
    any_kind()
        .prop_flat_map(move |k| cfg_for(k, cap, multiplier_any()))
        .prop_flat_map(move |cfg| {
            let n = flush_len(&cfg);
            let maxlen = if long { 3 * n + 1500 } else { 3 * n + 20 };
            let op = |pct: u32| prop_oneof![40 => inp_special(pct).prop_map(SOp::Next), 1 => Just(SOp::Reset), 2 => Just(SOp::Checkpoint)];
            // magnitudes around 1e-158: the values are ordinary normal numbers, their squares are subnormal
            let sq = || prop_oneof![40 => inp_finite().prop_map(|mut i| { let f = 1e-158; i.bar.o *= f; i.bar.h *= f; i.bar.l *= f; i.bar.c *= f; SOp::Next(i) }), 1 => Just(SOp::Reset), 2 => Just(SOp::Checkpoint)];
            let hist = prop_oneof![
                4 => vec(op(0), 0..=maxlen),
                1 => vec(sq(), 0..=maxlen),
                1 => vec(op(12), 0..=maxlen),
                2 => vec(op(0), 0..=(n.saturating_sub(1))),                   // warming up at the final checkpoint
                2 => vec(inp_finite().prop_map(SOp::Next), n..=n),              // exactly full
                1 => (vec(op(0), 0..=maxlen), Just(SOp::Reset)).prop_map(|(mut h, r)| { h.push(r); h }), // just reset
            ];
            (Just(cfg), hist, vec(inp_finite(), (n + 2)..=(2 * n + 6)))
        })
        .prop_map(|(cfg, history, continuation)| Case { cfg, history, continuation })
        .boxed()
}

fn item_strategy() -> BoxedStrategy<DCase> {
    prop_oneof![
        // short-mantissa values at every binary exponent (k * 2^e): whatever compact encoding a
        // hand-written serializer chooses, its exactness test is exercised across all ranges
        2 => (1u32..4096, -1074i32..1000, 0.0f64..1.0, 0.0f64..1.0).prop_map(|(k, e, a, b)| {
            let unit = if e < -1022 { f64::from_bits(1u64 << (e + 1074).max(0)) } else { 2f64.powi(e) };
            let l = k as f64 * unit;
            let h = l + (k as f64 * a).round() * unit;
            let c = l + ((h - l) / unit * b).round() * unit;
            DCase { bar: RawBar { o: c, h, l, c, v: (k % 7) as f64 * unit.max(1e-300) } }
        }),
        3 => valid_bar().prop_map(|bar| DCase { bar }),
        1 => (0usize..10, 0usize..10, 0usize..10, 0usize..10, 0usize..10).prop_map(|(a, b, c, d, e)| {
            const L: [f64; 10] = [f64::NEG_INFINITY, -2.0, -1.0, -0.0, 0.0, 1.0, 2.0, 3.0, f64::INFINITY, f64::NAN];
            DCase { bar: RawBar { o: L[a], h: L[b], l: L[c], c: L[d], v: L[e] } }
        }),
    ]
    .boxed()
}

pub fn run(g: &mut Global) {
    g.rule = "exhaustive: all 22 indicators x periods 1..=4 x every history of length 0..=depth over {1, 4, bar 2.5, Reset} with a checkpoint (bincode serialize + deserialize) after it — so every prefix of every history is a checkpoint position — and an 8-input continuation; random: histories of Next/Reset/Checkpoint (chained round-trips: the restored copy replaces the live one while a never-serialized shadow runs in lock-step), final checkpoint classes forced (warming up, exactly full, wrapped, just reset), special values in some histories; DataItem round-trips. Oracle: original and restored agree on every continuation output within 1e-12 relative, same Display/period()/multiplier(), re-serialization gives identical bytes. Non-trivial = at least one checkpoint that is not on a fresh instance and a continuation of >= n+2 inputs; distinct by hash of (kind, parameters, history incl. checkpoint positions, continuation).".into();
    g.assumptions = vec!["serde format: bincode 1.3 (the format the repository's own serde test uses)".into(), "agreement within 1e-12 relative; NaN = NaN".into()];
    let depth = g.tier.pick(7usize, 9usize);
    let mut offs = vec![0u64];
    for d in 0..=depth {
        offs.push(offs[d] + ipow(4, d));
    }
    let per_cfg = offs[depth + 1];
    let cont: Vec<Inp> = [2.0, 3.0, 5.0, 4.0, 1.0, 6.0, 2.5, 7.0].iter().enumerate().map(|(i, &v)| if i % 3 == 2 { letter_bar(v) } else { letter(v) }).collect();
    g.exhaustive(
        "enum",
        per_cfg * 4 * 22,
        &move |i| {
            let h = i % per_cfg;
            let r = i / per_cfg;
            let n = (r % 4) as usize + 1;
            let kind: Kind = ALL_KINDS[(r / 4) as usize];
            let d = (0..=depth).find(|&d| h < offs[d + 1]).unwrap();
            let digs = digits(h - offs[d], 4, d);
            Case { cfg: cfg_small(kind, n), history: digs.iter().map(|&j| hletter(j)).collect(), continuation: cont.clone() }
        },
        &check,
    );
    let cap = g.tier.pick(256usize, 2048usize);
    g.random("random", g.tier.pick(250000, 500000), &move || strategy(cap, false), &check);
    if g.tier == Tier::Thorough {
        g.random("deep", 3000, &move || strategy(64, true), &check);
    }
    g.random("dataitem", g.tier.pick(40000, 200000), &item_strategy, &check_item);
    // very large windows (beyond 4096 and beyond 65535 slots), full and wrapped, with random, flat and
    // plateau histories: length-prefixed containers, pre-allocation caps and run-length encodings live here
    let seed = g.seed;
    let cheap = [Kind::Sma, Kind::Wma, Kind::Sd, Kind::Bb, Kind::Roc, Kind::Mfi, Kind::Min, Kind::Max, Kind::FastStoch, Kind::Ce, Kind::SlowStoch];
    let heavy = [Kind::Mad, Kind::Er, Kind::Cci];
    let mut big_cfgs: Vec<(Kind, usize)> = vec![];
    for &k in &cheap {
        for n in [4097usize, 5000, 66_000] {
            big_cfgs.push((k, n));
        }
    }
    for &k in &heavy {
        big_cfgs.push((k, 4100));
    }
    let nb = big_cfgs.len() as u64;
    g.exhaustive(
        "large_periods",
        nb * 3,
        &move |i| {
            let (kind, n) = big_cfgs[(i % nb) as usize];
            let shape = (i / nb) as usize; // 0 random, 1 flat, 2 plateaus
            let mut st = seed ^ (i + 5).wrapping_mul(0x9E3779B97F4A7C15);
            let mut cur = 50.0;
            let mut mk = |st: &mut u64, shape: usize| -> Inp {
                let u = unit(st);
                let v = match shape {
                    0 => 10.0 + 90.0 * u,
                    1 => 42.5,
                    _ => {
                        if u > 0.9999 {
                            cur = 10.0 + 90.0 * unit(st);
                        }
                        cur
                    }
                };
                Inp { bar: RawBar { o: v, h: v + 0.5, l: v - 0.25, c: v + 0.125, v: 10.0 + (u * 100.0).round() }, scalar: u > 0.3 }
            };
            let history: Vec<SOp> = (0..n + 100).map(|_| SOp::Next(mk(&mut st, shape))).collect();
            let continuation: Vec<Inp> = (0..n + 3).map(|_| mk(&mut st, 0)).collect();
            Case { cfg: cfg_small(kind, n), history, continuation }
        },
        &check,
    );
    if g.tier == Tier::Thorough {
        g.fuzz_stage("ops_equiv", Some(2), 2_000_000, "random", &|b| crate::fuzzdec::decode_c06(b), &check);
    }
}
