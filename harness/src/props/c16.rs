//! C16 — DataItem builder accepts exactly the consistent bars and returns what was set.

use crate::fw::*;
use proptest::collection::vec;
use proptest::prelude::*;
use serde::{Deserialize, Serialize};
use ta::errors::TaError;
use ta::{Close, DataItem, High, Low, Open, Volume};

/// setter ids: 0 open, 1 high, 2 low, 3 close, 4 volume
#[derive(Clone, Debug, Serialize, Deserialize)]
pub struct Case {
    /// sequence of setter calls (id, value), in call order; repeated calls allowed (last wins)
    pub calls: Vec<(u8, X)>,
}

/// the property's lattice plus one extra letter: a NaN with the sign bit set (what 0.0/0.0 yields on x86-64)
pub const LATTICE: [f64; 11] = [f64::NEG_INFINITY, -2.0, -1.0, -0.0, 0.0, 1.0, 2.0, 3.0, f64::INFINITY, f64::NAN, NEG_NAN];
pub const NEG_NAN: f64 = f64::from_bits(0xFFF8_0000_0000_0000);

fn getters_method(item: &DataItem) -> [f64; 5] {
    [item.open(), item.high(), item.low(), item.close(), item.volume()]
}
fn getters_trait(item: &DataItem) -> [f64; 5] {
    fn g<T: Open + High + Low + Close + Volume>(t: &T) -> [f64; 5] {
        [Open::open(t), High::high(t), Low::low(t), Close::close(t), Volume::volume(t)]
    }
    g(item)
}

fn verdict(last: &[Option<f64>; 5]) -> Result<(), TaError> {
    if last.iter().any(|v| v.is_none()) {
        return Err(TaError::DataItemIncomplete);
    }
    let (o, h, l, c, v) = (last[0].unwrap(), last[1].unwrap(), last[2].unwrap(), last[3].unwrap(), last[4].unwrap());
    if l <= o && l <= c && l <= h && h >= o && h >= c && v >= 0.0 {
        Ok(())
    } else {
        Err(TaError::DataItemInvalid)
    }
}

pub fn check(c: &Case, ctx: &mut Ctx) -> Result<(), Failure> {
    let mut b = DataItem::builder();
    let mut last: [Option<f64>; 5] = [None; 5];
    let mut fp = Fp::new("C16");
    for (id, x) in &c.calls {
        let x = x.0;
        fp.u(*id as u64);
        fp.f(x);
        b = match id {
            0 => b.open(x),
            1 => b.high(x),
            2 => b.low(x),
            3 => b.close(x),
            _ => b.volume(x),
        };
        last[(*id).min(4) as usize] = Some(x);
    }
    let want = verdict(&last);
    let got = b.build();
    let show = || format!("setter calls (0 open,1 high,2 low,3 close,4 volume): {:?}", c.calls);
    match (&want, &got) {
        (Err(e), Err(g)) if e == g => {}
        (Ok(()), Ok(item)) => {
            // both ways a caller reaches the getters: method syntax (which would pick an inherent method of the same
            // name, should one exist) and through the price traits, as every generic consumer does
            for (how, vals) in [("method", getters_method(item)), ("trait", getters_trait(item))] {
                for i in 0..5 {
                    if vals[i].to_bits() != last[i].unwrap().to_bits() {
                        ctx.fail(
                            format!("C16:getter_mismatch:{}", ["open", "high", "low", "close", "volume"][i]),
                            format!("{}: getter {} ({} call) returns {:e}, last value set was {:e}", show(), ["open", "high", "low", "close", "volume"][i], how, vals[i], last[i].unwrap()),
                        )?;
                    }
                }
            }
            let cl = item.clone();
            // "a clone compares equal": through ==, through != and element-wise inside containers
            #[allow(clippy::nonminimal_bool)]
            if !(cl == *item) || cl != *item || [cl.clone()] != [item.clone()] || vec![cl.clone(), cl.clone()] != vec![item.clone(), item.clone()] || (cl.clone(), 1u8) != (item.clone(), 1u8) {
                ctx.fail("C16:clone_not_equal".into(), format!("{}: clone does not compare equal (==, != or container comparison)", show()))?;
            }
        }
        (Err(TaError::DataItemIncomplete), _) => ctx.fail("C16:incomplete_not_reported".into(), format!("{}: expected Err(DataItemIncomplete), got {:?}", show(), got))?,
        (Err(_), Ok(_)) => ctx.fail("C16:accepts_inconsistent".into(), format!("{}: inconsistent bar accepted: {:?}", show(), got))?,
        (Ok(()), Err(e)) => ctx.fail("C16:rejects_consistent".into(), format!("{}: consistent bar rejected with {:?}", show(), e))?,
        (Err(e), Err(g)) => ctx.fail("C16:wrong_error".into(), format!("{}: expected Err({:?}), got Err({:?})", show(), e, g))?,
    }
    // boundary: flipping one field to a lattice neighbour flips the accept/reject verdict
    if last.iter().all(|v| v.is_some()) {
        let mut boundary = false;
        'o: for i in 0..5 {
            let cur = last[i].unwrap();
            if let Some(pos) = LATTICE.iter().position(|l| l.to_bits() == cur.to_bits()) {
                for np in [pos.wrapping_sub(1), pos + 1] {
                    if np < LATTICE.len() {
                        let mut alt = last;
                        alt[i] = Some(LATTICE[np]);
                        if verdict(&alt).is_ok() != want.is_ok() {
                            boundary = true;
                            break 'o;
                        }
                    }
                }
            } else {
                // random finite tuples: boundary if two prices are equal or volume is zero
                boundary = last[0] == last[1] || last[0] == last[2] || last[3] == last[1] || last[3] == last[2] || last[1] == last[2] || last[4] == Some(0.0);
                break;
            }
        }
        if boundary {
            ctx.nontrivial(fp);
            ctx.label("nontrivial_at_accept_reject_boundary");
        }
        ctx.label(if want.is_ok() { "verdict:ok" } else { "verdict:invalid" });
    } else {
        ctx.label("verdict:incomplete");
        if c.calls.len() >= 4 {
            ctx.nontrivial(fp);
        }
    }
    Ok(())
}

/// several builders alive on one thread: setter calls addressed to builder 0..=2 in any interleaving; a builder
/// ends by build() or by being dropped unbuilt, and its slot may then start a new life. Every build() is judged
/// by the calls of its own life only.
#[derive(Clone, Debug, Serialize, Deserialize)]
pub enum MOp {
    Set(u8, u8, X),
    /// end builder k: build (true) or drop without building (false)
    Finish(u8, bool),
}
#[derive(Clone, Debug, Serialize, Deserialize)]
pub struct MCase {
    pub ops: Vec<MOp>,
}

fn judge(last: &[Option<f64>; 5], got: Result<DataItem, TaError>, what: &str, ctx: &mut Ctx) -> Result<(), Failure> {
    let want = verdict(last);
    match (&want, &got) {
        (Err(e), Err(g)) if e == g => Ok(()),
        (Ok(()), Ok(item)) => {
            for vals in [getters_method(item), getters_trait(item)] {
                for i in 0..5 {
                    if vals[i].to_bits() != last[i].unwrap().to_bits() {
                        ctx.fail(format!("C16:getter_mismatch:{}", ["open", "high", "low", "close", "volume"][i]), format!("{}: getter returns {:e}, last value set on this builder was {:e}", what, vals[i], last[i].unwrap()))?;
                    }
                }
            }
            Ok(())
        }
        (Err(TaError::DataItemIncomplete), _) => ctx.fail("C16:incomplete_not_reported".into(), format!("{}: expected Err(DataItemIncomplete), got {:?}", what, got)),
        (Err(_), Ok(_)) => ctx.fail("C16:accepts_inconsistent".into(), format!("{}: inconsistent bar accepted: {:?}", what, got)),
        (Ok(()), Err(e)) => ctx.fail("C16:rejects_consistent".into(), format!("{}: consistent bar rejected with {:?}", what, e)),
        (Err(e), Err(g)) => ctx.fail("C16:wrong_error".into(), format!("{}: expected Err({:?}), got Err({:?})", what, e, g)),
    }
}

pub fn check_multi(c: &MCase, ctx: &mut Ctx) -> Result<(), Failure> {
    // the builder type is not nameable from outside the crate: generic over it
    check_multi_g(
        c,
        ctx,
        DataItem::builder,
        |b, id, x| match id {
            0 => b.open(x),
            1 => b.high(x),
            2 => b.low(x),
            3 => b.close(x),
            _ => b.volume(x),
        },
        |b| b.build(),
    )
}

fn check_multi_g<B>(c: &MCase, ctx: &mut Ctx, mk: impl Fn() -> B, set: impl Fn(B, u8, f64) -> B, fin: impl Fn(B) -> Result<DataItem, TaError>) -> Result<(), Failure> {
    let mut b: [Option<B>; 3] = [None, None, None];
    let mut last: [[Option<f64>; 5]; 3] = [[None; 5]; 3];
    let mut fp = Fp::new("C16M");
    let (mut overlaps, mut abandoned, mut built) = (0u64, 0u64, 0u64);
    let finish = |k: usize, build: bool, b: &mut [Option<B>; 3], last: &mut [[Option<f64>; 5]; 3], ctx: &mut Ctx, at: usize| -> Result<(), Failure> {
        if let Some(bb) = b[k].take() {
            if build {
                judge(&last[k], fin(bb), &format!("builder {} finished at op {} of {:?}", k, at, c.ops), ctx)?;
            } else {
                drop(bb);
            }
        }
        last[k] = [None; 5];
        Ok(())
    };
    for (i, op) in c.ops.iter().enumerate() {
        match op {
            MOp::Set(k, id, x) => {
                let k = (*k).min(2) as usize;
                fp.u(k as u64);
                fp.u(*id as u64);
                fp.f(x.0);
                if b[k].is_none() && b.iter().any(|o| o.is_some()) {
                    overlaps += 1;
                }
                let cur = b[k].take().unwrap_or_else(&mk);
                let x = x.0;
                b[k] = Some(set(cur, *id, x));
                last[k][(*id).min(4) as usize] = Some(x);
            }
            MOp::Finish(k, build) => {
                let k = (*k).min(2) as usize;
                fp.u(10 + k as u64 + if *build { 5 } else { 0 });
                if b[k].is_some() {
                    if *build {
                        built += 1
                    } else {
                        abandoned += 1
                    }
                }
                finish(k, *build, &mut b, &mut last, ctx, i)?;
            }
        }
    }
    for k in 0..3 {
        if b[k].is_some() {
            built += 1;
        }
        finish(k, true, &mut b, &mut last, ctx, c.ops.len())?;
    }
    ctx.label_n("builds_judged", built);
    if (overlaps > 0 || abandoned > 0) && built >= 1 {
        ctx.nontrivial(fp);
        if overlaps > 0 {
            ctx.label("builders_overlapping");
        }
        if abandoned > 0 {
            ctx.label("builder_dropped_unbuilt");
        }
    }
    Ok(())
}

/// several complete lives one after the other on one thread (each judged on its own): what an earlier build() saw —
/// in particular the same five numbers in another arrangement, or a tuple differing in one field — must not leak
/// into a later verdict (a memo of "the last validation", keyed by something coarser than the tuple itself)
#[derive(Clone, Debug, Serialize, Deserialize)]
pub struct SeqCase {
    pub builds: Vec<Vec<(u8, X)>>,
}
pub fn check_seq(c: &SeqCase, ctx: &mut Ctx) -> Result<(), Failure> {
    let mut fp = Fp::new("C16S");
    let mut verdicts = vec![];
    for (n, calls) in c.builds.iter().enumerate() {
        let mut b = DataItem::builder();
        let mut last: [Option<f64>; 5] = [None; 5];
        for (id, x) in calls {
            fp.u(*id as u64);
            fp.f(x.0);
            b = match id {
                0 => b.open(x.0),
                1 => b.high(x.0),
                2 => b.low(x.0),
                3 => b.close(x.0),
                _ => b.volume(x.0),
            };
            last[(*id).min(4) as usize] = Some(x.0);
        }
        fp.u(0xB17D);
        verdicts.push(verdict(&last).is_ok());
        judge(&last, b.build(), &format!("build {} of the sequence {:?}", n, c.builds), ctx)?;
    }
    if verdicts.len() >= 2 && verdicts.windows(2).any(|w| w[0] != w[1]) {
        ctx.nontrivial(fp);
        ctx.label("verdict_changes_between_consecutive_builds");
    }
    ctx.label_n("builds_judged", verdicts.len() as u64);
    Ok(())
}

/// many builders alive at once (far more than three): all created first, fields set round-robin, built in a
/// generated order — storage that is pooled, recycled or indexed per thread gives out after some number of them
#[derive(Clone, Debug, Serialize, Deserialize)]
pub struct ManyCase {
    pub alive: usize,
    pub seed: u64,
    pub reverse: bool,
}
pub fn check_many(c: &ManyCase, ctx: &mut Ctx) -> Result<(), Failure> {
    check_many_g(
        c,
        ctx,
        DataItem::builder,
        |b, id, x| match id {
            0 => b.open(x),
            1 => b.high(x),
            2 => b.low(x),
            3 => b.close(x),
            _ => b.volume(x),
        },
        |b| b.build(),
    )
}
fn check_many_g<B>(c: &ManyCase, ctx: &mut Ctx, mk: impl Fn() -> B, set: impl Fn(B, u8, f64) -> B, fin: impl Fn(B) -> Result<DataItem, TaError>) -> Result<(), Failure> {
    let k = c.alive.max(1);
    let mut st = c.seed | 1;
    let mut bs: Vec<Option<B>> = (0..k).map(|_| Some(mk())).collect();
    let mut last: Vec<[Option<f64>; 5]> = vec![[None; 5]; k];
    // five passes: pass j sets field perm[j] of every builder (each builder its own consistent-or-not tuple)
    let p = perm((splitmix(&mut st) % 120) as usize);
    for &id in p.iter() {
        for i in 0..k {
            let u = unit(&mut st);
            let base = 10.0 + i as f64;
            // mostly consistent tuples; one builder in 7 gets a crossed bar, one in 11 misses its volume
            let x = match id {
                0 => base + 0.25,
                1 => if i % 7 == 3 { base - 1.0 } else { base + 1.0 + u },
                2 => base - 0.5 * u,
                3 => base + 0.5,
                _ => 100.0 * u,
            };
            if id == 4 && i % 11 == 5 {
                continue;
            }
            let b = bs[i].take().unwrap();
            bs[i] = Some(set(b, id, x));
            last[i][id as usize] = Some(x);
        }
    }
    let order: Vec<usize> = if c.reverse { (0..k).rev().collect() } else { (0..k).collect() };
    for i in order {
        let b = bs[i].take().unwrap();
        judge(&last[i], fin(b), &format!("builder {} of {} alive at once (seed {:#x})", i, k, c.seed), ctx)?;
    }
    let mut fp = Fp::new("C16K");
    fp.u(k as u64);
    fp.u(c.seed);
    fp.u(c.reverse as u64);
    ctx.nontrivial(fp);
    ctx.label_n("builds_judged", k as u64);
    Ok(())
}

fn seq_strategy() -> BoxedStrategy<SeqCase> {
    let val = prop_oneof![4 => (0usize..8).prop_map(|i| [1.0, 2.0, 3.0, 0.0, 4.0, -1.0, 2.5, 10.0][i]), 3 => -50.0f64..150.0, 1 => (0usize..11).prop_map(|i| LATTICE[i])];
    // a first tuple, then 1..6 relatives: two fields exchanged, one field changed, the same tuple again, another order
    (proptest::array::uniform5(val.clone()), vec((0u8..5, 0u8..5, 0u8..4, val, 0usize..120), 1..6))
        .prop_map(|(t0, steps)| {
            let mut t = t0;
            let mut builds = vec![(0..5u8).map(|j| (j, X(t[j as usize]))).collect::<Vec<_>>()];
            for (a, b, kind, v, pk) in steps {
                match kind {
                    0 => t.swap(a as usize, b as usize),
                    1 => t[a as usize] = v,
                    2 => {}
                    _ => t.rotate_left(1 + (b as usize) % 4),
                }
                builds.push(perm(pk).iter().map(|&j| (j, X(t[j as usize]))).collect());
            }
            SeqCase { builds }
        })
        .boxed()
}

fn multi_strategy() -> BoxedStrategy<MCase> {
    let val = prop_oneof![5 => -50.0f64..150.0, 2 => (0usize..11).prop_map(|i| LATTICE[i]), 3 => (0usize..4).prop_map(|i| [1.0, 2.0, 3.0, 0.0][i])];
    let op = prop_oneof![12 => (0u8..3, 0u8..5, val).prop_map(|(k, id, x)| MOp::Set(k, id, X(x))), 1 => (0u8..3, any::<bool>()).prop_map(|(k, bld)| MOp::Finish(k, bld))];
    // a consistent complete tuple spread over the sequence makes full builds frequent
    (vec(op, 0..40), 0usize..120, 0u8..3, any::<bool>())
        .prop_map(|(mut ops, pk, k, tail)| {
            if tail {
                let vals = [1.5, 3.0, 1.0, 2.0, 7.0];
                for &i in perm(pk).iter() {
                    ops.push(MOp::Set(k, i, X(vals[i as usize])));
                }
            }
            MCase { ops }
        })
        .boxed()
}

fn perm(mut k: usize) -> [u8; 5] {
    // k-th permutation of 0..5 (Lehmer code)
    let mut items: Vec<u8> = vec![0, 1, 2, 3, 4];
    let mut out = [0u8; 5];
    for i in 0..5 {
        let f = [24, 6, 2, 1, 1][i];
        let idx = k / f;
        k %= f;
        out[i] = items.remove(idx);
    }
    out
}

fn tuple(i: u64) -> [f64; 5] {
    let d = digits(i, 11, 5);
    [LATTICE[d[0]], LATTICE[d[1]], LATTICE[d[2]], LATTICE[d[3]], LATTICE[d[4]]]
}

fn random_strategy() -> BoxedStrategy<Case> {
    let val = prop_oneof![6 => -50.0f64..150.0, 2 => (0usize..11).prop_map(|i| LATTICE[i]), 1 => (-300.0f64..300.0).prop_map(|e| 10f64.powf(e))];
    prop_oneof![
        // consistent by construction, random order, with optional repeated setter calls
        4 => (1.0f64..100.0, 0.0f64..1.0, 0.0f64..1.0, 0.0f64..1.0, 0.0f64..1.0, 0.0f64..1e6, 0usize..120, vec((0u8..5, -10.0f64..200.0), 0..3)).prop_map(|(mid, a, b, o, c, v, pk, pre)| {
            let h = mid * (1.0 + a);
            let l = mid * (1.0 - b);
            let vals = [l + (h - l) * o, h, l, l + (h - l) * c, v];
            let p = perm(pk);
            let mut calls: Vec<(u8, X)> = pre.into_iter().map(|(i, x)| (i, X(x))).collect();
            calls.extend(p.iter().map(|&i| (i, X(vals[i as usize]))));
            Case { calls }
        }),
        // arbitrary values, arbitrary call sequences (possibly incomplete, possibly repeated)
        4 => vec((0u8..5, val), 0..9).prop_map(|cs| Case { calls: cs.into_iter().map(|(i, x)| (i, X(x))).collect() }),
    ]
    .boxed()
}

pub fn run(g: &mut Global) {
    g.rule = "exhaustive, seed-independent: all 11^5 = 161 051 tuples over the lattice {-inf,-2,-1,-0.0,0.0,1,2,3,+inf,NaN} extended by a sign-bit-set NaN, each under all 120 setter orders (1.2e7 builds, both tiers); all 31 proper subsets of the five setters for a 1000-tuple subset; repeated setter calls (last wins); random: consistent bars by construction and arbitrary call sequences; several_builders: up to three builders alive on one thread with interleaved setter calls, builders dropped without build(), slots reused. Oracle: reference predicate (Incomplete iff a setter was never called, else Invalid iff not(low<=open, low<=close, low<=high, high>=open, high>=close, volume>=0), else Ok) and bit-exact getters, clone == item. Non-trivial = complete tuples at the accept/reject boundary (changing one field to a lattice neighbour flips the verdict) and incomplete call sequences with at least four calls; distinct by hash of the call sequence.".into();
    g.assumptions = vec![];
    g.rule.push_str(" rearranged_after_twin: every lattice tuple is built and then at once the same five numbers with two fields exchanged (all 10 exchanges; all 119 rearrangements for every 7th tuple), the second build judged by its own arrangement; related_sequences: 2..7 complete builds in a row on one thread, each a relative of the previous one (two fields exchanged, one field changed, the same tuple, rotated), each judged on its own — non-trivial when consecutive verdicts differ; many_builders_alive: 4 ... 70 000 builders created before any is built, fields set round-robin, built in creation or reverse order.");
    let all_orders = true; // 1.2e7 builds take well under a second on 16 cores: both tiers
    let _ = Tier::Quick;
    if all_orders {
        g.exhaustive(
            "lattice_all_orders",
            161_051 * 120,
            &|i| {
                let t = tuple(i / 120);
                let p = perm((i % 120) as usize);
                Case { calls: p.iter().map(|&j| (j, X(t[j as usize]))).collect() }
            },
            &check,
        );
    } else {
        g.exhaustive(
            "lattice",
            161_051,
            &|i| {
                let t = tuple(i);
                let p = perm((i % 120) as usize);
                Case { calls: p.iter().map(|&j| (j, X(t[j as usize]))).collect() }
            },
            &check,
        );
        g.exhaustive(
            "orders_subset",
            2000 * 120,
            &|i| {
                let t = tuple((i / 120) * 50 + 7);
                let p = perm((i % 120) as usize);
                Case { calls: p.iter().map(|&j| (j, X(t[j as usize]))).collect() }
            },
            &check,
        );
    }
    g.exhaustive(
        "subsets",
        1000 * 31,
        &|i| {
            let t = tuple((i / 31) * 161 + 3);
            let mask = (i % 31) as u8; // proper subsets: 0..=30
            let p = perm(((i / 31) % 120) as usize);
            Case { calls: p.iter().filter(|&&j| mask & (1 << j) != 0).map(|&j| (j, X(t[j as usize]))).collect() }
        },
        &check,
    );
    g.exhaustive(
        "repeated",
        20_000,
        &|i| {
            // first a full tuple, then a second full or partial pass with other values: last wins
            let t1 = tuple(i * 5 + 1);
            let t2 = tuple((i * 7919 + 13) % 161_051);
            let mask = (i % 32) as u8;
            let mut calls: Vec<(u8, X)> = (0..5u8).map(|j| (j, X(t1[j as usize]))).collect();
            calls.extend((0..5u8).rev().filter(|j| mask & (1 << j) != 0).map(|j| (j, X(t2[j as usize]))));
            Case { calls }
        },
        &check,
    );
    g.random("random", g.tier.pick(300_000, 5_000_000), &random_strategy, &check);
    // several builders alive at once, builders dropped unbuilt, slots reused: each build() is judged by the calls
    // made on that builder only (no state shared between builders through statics, thread-locals or pools)
    g.random("several_builders", g.tier.pick(300_000, 5_000_000), &multi_strategy, &check_multi);
    // every lattice tuple, then at once the same five numbers with two fields exchanged (all 10 exchanges), and
    // for every 7th tuple all 119 rearrangements: the second build is judged by its own arrangement
    g.exhaustive(
        "rearranged_after_twin",
        161_051 * 10 + 23_007 * 119,
        &|i| {
            let (t, pi) = if i < 161_051 * 10 {
                let t = tuple(i / 10);
                const SW: [(usize, usize); 10] = [(0, 1), (0, 2), (0, 3), (0, 4), (1, 2), (1, 3), (1, 4), (2, 3), (2, 4), (3, 4)];
                let (a, b) = SW[(i % 10) as usize];
                let mut q = [0u8, 1, 2, 3, 4];
                q.swap(a, b);
                (t, q)
            } else {
                let j = i - 161_051 * 10;
                (tuple((j / 119) * 7), perm((j % 119) as usize + 1))
            };
            let first: Vec<(u8, X)> = (0..5u8).map(|j| (j, X(t[j as usize]))).collect();
            let second: Vec<(u8, X)> = (0..5u8).map(|j| (j, X(t[pi[j as usize] as usize]))).collect();
            SeqCase { builds: vec![first, second] }
        },
        &check_seq,
    );
    g.random("related_sequences", g.tier.pick(600_000, 4_000_000), &seq_strategy, &check_seq);
    let seed = g.seed;
    g.exhaustive(
        "many_builders_alive",
        12 * 2 * 4,
        &move |i| {
            const K: [usize; 12] = [4, 16, 17, 63, 64, 65, 66, 129, 257, 1000, 4097, 70_000];
            let mut s = seed ^ (i + 5).wrapping_mul(0x9E3779B97F4A7C15);
            ManyCase { alive: K[(i % 12) as usize], reverse: (i / 12) % 2 == 1, seed: splitmix(&mut s) }
        },
        &check_many,
    );
    // bit patterns an implementation might single out as a marker ("unset", "missing"): every one of them is an
    // ordinary argument of a setter. One or two fields take such a pattern, the others a consistent value; all 120
    // setter orders for the single-field cases. (An arbitrary payload is out of reach here: thorough tier, libFuzzer.)
    const PATTERNS: [u64; 16] = [
        u64::MAX, 0x7FFF_FFFF_FFFF_FFFF, 0x7FF0_0000_0000_0001, 0xFFF0_0000_0000_0001, 0x7FF8_0000_0000_0001, 0xFFF8_0000_0000_0001,
        0x7FF4_0000_0000_0000, 0x7FEF_FFFF_FFFF_FFFF, 0xFFEF_FFFF_FFFF_FFFF, 0x0010_0000_0000_0000, 0x000F_FFFF_FFFF_FFFF, 0x0000_0000_0000_0001,
        0x8000_0000_0000_0001, 0x7FF8_DEAD_BEEF_0000, 0x7FF8_0000_FFFF_FFFF, 0xFFFF_FFFF_0000_0000,
    ];
    g.exhaustive(
        "marker_bit_patterns",
        16 * 5 * 120 + 16 * 16 * 10,
        &|i| {
            let base = [1.5f64, 3.0, 1.0, 2.0, 7.0]; // open, high, low, close, volume: consistent
            if i < 16 * 5 * 120 {
                let p = perm((i % 120) as usize);
                let r = i / 120;
                let field = (r % 5) as usize;
                let pat = f64::from_bits(PATTERNS[(r / 5) as usize]);
                let mut t = base;
                t[field] = pat;
                Case { calls: p.iter().map(|&j| (j, X(t[j as usize]))).collect() }
            } else {
                let j = i - 16 * 5 * 120;
                const PAIRS: [(usize, usize); 10] = [(0, 1), (0, 2), (0, 3), (0, 4), (1, 2), (1, 3), (1, 4), (2, 3), (2, 4), (3, 4)];
                let (a, b) = PAIRS[(j % 10) as usize];
                let r = j / 10;
                let mut t = base;
                t[a] = f64::from_bits(PATTERNS[(r % 16) as usize]);
                t[b] = f64::from_bits(PATTERNS[(r / 16) as usize]);
                Case { calls: (0..5u8).map(|q| (q, X(t[q as usize]))).collect() }
            }
        },
        &check,
    );
    // long chains of setter calls (up to 600 per build): "last value wins" must not depend on how many
    // calls were made; one field is left out in a third of the chains
    g.random(
        "long_chains",
        g.tier.pick(20_000, 400_000),
        &|| {
            (prop_oneof![3 => vec((0u8..5, prop_oneof![3 => -50.0f64..150.0, 1 => (0usize..11).prop_map(|i| LATTICE[i])]), 20..=120), 1 => vec((0u8..5, prop_oneof![3 => -50.0f64..150.0, 1 => (0usize..11).prop_map(|i| LATTICE[i])]), 250..=600)], 0u8..15)
                .prop_map(|(cs, skip)| Case { calls: cs.into_iter().filter(|(i, _)| *i != skip).map(|(i, x)| (i, X(x))).collect() })
                .boxed()
        },
        &check,
    );
    // neighbouring doubles: every field at b - 1ulp, b, b + 1ulp (any tolerance in a comparison shows here)
    const NB: [f64; 5] = [1.0, 100.1, 1e-300, 1e300, 6.02e23];
    g.exhaustive(
        "one_ulp_neighbours",
        5 * 81 * 10 * 6,
        &|i| {
            let ord = (i % 6) as usize;
            let r = i / 6;
            let vi = (r % 10) as usize;
            let r = r / 10;
            let d = digits(r % 81, 3, 4);
            let b = NB[(r / 81) as usize % 5];
            let nb = |j: usize| match j {
                0 => f64::from_bits(b.to_bits() - 1),
                1 => b,
                _ => f64::from_bits(b.to_bits() + 1),
            };
            // volumes: zeros, the smallest subnormals, and values one or two ulps away from whole numbers (a setter that
            // "cleans" a volume to the nearest whole unit within some epsilon)
            let vol = [0.0, -0.0, 5e-324, -5e-324, 1.0, f64::from_bits(1.0f64.to_bits() + 1), f64::from_bits(3.0f64.to_bits() - 1), 3.0000000000000004, f64::from_bits(7500.0f64.to_bits() + 2), 0.1 * 3.0 * 25000.0][vi];
            let vals = [nb(d[0]), nb(d[1]), nb(d[2]), nb(d[3]), vol];
            let p = perm(ord * 17 % 120);
            Case { calls: p.iter().map(|&j| (j, X(vals[j as usize]))).collect() }
        },
        &check,
    );
    if g.tier == Tier::Thorough {
        // raw 64-bit patterns under libFuzzer's comparison tracing: the only generator here that can hit a
        // single magic bit pattern (a sentinel NaN payload, say)
        g.fuzz_stage("ops_pred", Some(5), 4_000_000, "random", &|b| crate::fuzzdec::decode_c16(b), &check);
    }
}
