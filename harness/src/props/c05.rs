//! C05 — clones and separate instances are independent and deterministic.

use crate::adapter::{Ind, Kind, Out, ALL_KINDS};
use crate::fw::*;
use crate::gen::*;
use crate::hist::*;
use proptest::collection::vec;
use proptest::prelude::*;
use serde::{Deserialize, Serialize};

#[derive(Clone, Debug, Serialize, Deserialize)]
pub struct COp {
    /// 0 = original, 1 = clone (original before the clone exists), 2 = unrelated instance
    pub target: u8,
    pub inp: Inp,
    /// `reset()` is called on the target immediately before it is fed `inp` (the replay model does the same on
    /// its fresh instance): "every interleaving of operations" includes this one, and what a reset does to a
    /// buffer that a clone may still share is observable only through it
    #[serde(default)]
    pub reset: bool,
}

#[derive(Clone, Debug, Serialize, Deserialize)]
pub struct Case {
    pub cfg: Cfg,
    /// configuration of the unrelated instance (any kind / parameters)
    #[serde(default)]
    pub other: Option<Cfg>,
    /// run the replay model in a freshly spawned thread (exposes thread-local state)
    #[serde(default)]
    pub replay_in_new_thread: bool,
    /// the clone is produced by `target.clone_from(&original)` where target is an instance with the same
    /// parameters that was first fed these inputs (empty = plain `clone()`)
    #[serde(default)]
    pub clone_from_dirt: Vec<Inp>,
    /// the clone_from target was built with every period larger by this much (its buffers are longer than
    /// the source's); after clone_from it must be indistinguishable from the source all the same
    #[serde(default)]
    pub dirt_period_delta: usize,
    /// inputs fed to a predecessor — an instance with the same parameters that is created and dropped on this
    /// thread before the original is built (state keyed by buffer address or kept per thread outlives it)
    #[serde(default)]
    pub predecessor: Vec<Inp>,
    pub ops: Vec<COp>,
    /// the clone is taken just before ops[clone_at]
    pub clone_at: usize,
}

fn fresh(cfg: &Cfg) -> Result<Ind, Failure> {
    Ind::build(cfg.kind, &cfg.params()).map_err(|_| Failure { signature: "C05:harness".into(), detail: "HARNESS build".into() })
}

pub fn check(c: &Case, ctx: &mut Ctx) -> Result<(), Failure> {
    let name = c.cfg.kind.name();
    let ocfg = c.other.clone().unwrap_or_else(|| c.cfg.clone());
    if !c.predecessor.is_empty() {
        let mut pred = fresh(&c.cfg)?;
        for inp in &c.predecessor {
            feed(&mut pred, inp);
        }
        drop(pred);
        ctx.label("predecessor_dropped_before");
    }
    let mut orig = fresh(&c.cfg)?;
    let mut other = fresh(&ocfg)?;
    let mut clone: Option<Ind> = None;
    // per-instance input subsequences and recorded outputs
    let mut ins: [Vec<(Inp, bool)>; 3] = [vec![], vec![], vec![]];
    let mut outs: [Vec<Out>; 3] = [vec![], vec![], vec![]];
    let mut fp = Fp::new("C05");
    c.cfg.fp(&mut fp);
    fp.u(c.clone_at as u64);
    if let Some(o) = &c.other {
        o.fp(&mut fp);
    }
    let clone_at = c.clone_at.min(c.ops.len());
    let mut switches = 0;
    let mut last_target = 9u8;
    let (mut after_o, mut after_c) = (0usize, 0usize);
    let mut pre_clone_inputs = 0usize;
    for (i, op) in c.ops.iter().enumerate() {
        if i == clone_at {
            clone = Some(if c.clone_from_dirt.is_empty() {
                orig.clone()
            } else {
                let mut tcfg = c.cfg.clone();
                for q in tcfg.p.iter_mut() {
                    *q += c.dirt_period_delta;
                }
                let mut t = fresh(&tcfg)?;
                for d in &c.clone_from_dirt {
                    feed(&mut t, d);
                }
                t.clone_from_same(&orig);
                t
            });
            ins[1] = ins[0].clone();
            outs[1] = outs[0].clone();
            pre_clone_inputs = ins[0].len();
        }
        let tgt = if op.target == 1 && clone.is_none() { 0 } else { op.target.min(2) };
        fp.u(tgt as u64);
        fp.f(op.inp.bar.c);
        fp.f(op.inp.bar.h);
        if op.reset {
            fp.u(0xDEAD);
            match tgt {
                0 => orig.reset(),
                1 => clone.as_mut().unwrap().reset(),
                _ => other.reset(),
            }
            if clone.is_some() && tgt < 2 {
                ctx.label("reset_after_clone_point");
            }
        }
        let o = match tgt {
            0 => feed(&mut orig, &op.inp),
            1 => feed(clone.as_mut().unwrap(), &op.inp),
            _ => feed(&mut other, &op.inp),
        };
        ins[tgt as usize].push((op.inp.clone(), op.reset));
        outs[tgt as usize].push(o);
        if clone.is_some() && tgt < 2 {
            if tgt != last_target && last_target != 9 {
                switches += 1;
            }
            last_target = tgt;
            if tgt == 0 {
                after_o += 1
            } else {
                after_c += 1
            }
        }
    }
    // replay model: each instance must be bit-identical to a fresh instance fed its own subsequence
    let who = ["original", "clone", "unrelated instance"];
    let cfgs = [c.cfg.clone(), c.cfg.clone(), ocfg.clone()];
    let has_clone = clone.is_some();
    let replay = |ins: &[Vec<(Inp, bool)>; 3]| -> Result<Vec<Vec<Out>>, Failure> {
        let mut all = vec![];
        for j in 0..3 {
            let mut v = vec![];
            if !(j == 1 && !has_clone) {
                let mut f = fresh(&cfgs[j])?;
                for (inp, rst) in ins[j].iter() {
                    if *rst {
                        f.reset();
                    }
                    v.push(feed(&mut f, inp));
                }
            }
            all.push(v);
        }
        Ok(all)
    };
    let replayed: Vec<Vec<Out>> = if c.replay_in_new_thread {
        let r = std::thread::scope(|sc| sc.spawn(|| crate::fw::guarded(|| replay(&ins))).join());
        match r {
            Ok(Ok(x)) => x?,
            Ok(Err(msg)) => panic!("{}", msg),
            Err(_) => panic!("HARNESS: replay thread died"),
        }
    } else {
        replay(&ins)?
    };
    for j in 0..3 {
        if j == 1 && !has_clone {
            continue;
        }
        for (s, (inp, _)) in ins[j].iter().enumerate() {
            let o = replayed[j][s];
            if !o.bits_eq(&outs[j][s]) {
                let sym = if j == 1 && s < pre_clone_inputs { "nondeterministic" } else if j == 1 { "clone_diverges" } else { "interference" };
                ctx.fail(
                    format!("C05:{}:{}", if j == 2 { ocfg.kind.name() } else { name }, sym),
                    format!(
                        "{}: {} ({}) output #{} on input {:?} was {:?} in the interleaved run but {:?} from a fresh instance{} fed only its own {} inputs (clone taken before op {})",
                        c.cfg.tag(), who[j], cfgs[j].tag(), s, inp, outs[j][s].vals(), o.vals(), if c.replay_in_new_thread { " on a new thread" } else { "" }, ins[j].len(), clone_at
                    ),
                )?;
                break;
            }
        }
    }
    ctx.label(&format!("kind:{}", name));
    let w = flush_len(&c.cfg);
    if pre_clone_inputs >= w && after_o >= w + 1 && after_c >= w + 1 && switches >= 2 {
        ctx.nontrivial(fp);
        ctx.label("nontrivial");
    } else if clone_at < c.ops.len() && switches >= 2 {
        ctx.label("clone_before_window_full_or_short_tail");
    }
    Ok(())
}

/// few distinct, not exactly summable values (tick-grid prices): windows with many repeats
fn inp_grid() -> BoxedStrategy<Inp> {
    (0usize..7, any::<bool>()).prop_map(|(k, scalar)| {
        let c = 23.0 + 0.15 * k as f64;
        Inp { bar: crate::adapter::RawBar { o: c, h: c + 0.3, l: c - 0.15, c, v: 100.0 + k as f64 }, scalar }
    }).boxed()
}

/// wide swings at first, then a spread six to eight orders of magnitude smaller (running second moments
/// go slightly negative there and repair paths run)
fn inp_collapse(quiet: bool) -> BoxedStrategy<Inp> {
    (0.0f64..1.0, any::<bool>(), 5.0f64..9.0).prop_map(move |(u, scalar, e)| {
        let c = if quiet { 1.0 + 10f64.powf(-e) * u } else { 1000.0 + 500.0 * (u - 0.5) };
        Inp { bar: crate::adapter::RawBar { o: c, h: c * (1.0 + 1e-9), l: c * (1.0 - 1e-9), c, v: 10.0 }, scalar }
    }).boxed()
}

fn strategy(cap: usize, maxops: usize) -> BoxedStrategy<Case> {
    (any_kind(), 0usize..5)
        .prop_flat_map(move |(k, fam)| (cfg_for(k, cap, multiplier_any()), Just(fam)))
        .prop_flat_map(move |(cfg, fam)| {
            let w = flush_len(&cfg);
            let grid = fam == 0 || fam == 1;
            // family 4: loud before the clone point, quiet after it
            let inp = move || if grid { inp_grid() } else if fam == 4 { inp_collapse(false) } else { inp_special(6) };
            let inp_post = move || if grid { inp_grid() } else if fam == 4 { inp_collapse(true) } else { inp_special(6) };
            let pre = vec((prop_oneof![4 => Just(0u8), 1 => Just(2u8)], inp()), w..=(2 * w + 4));
            let post_len = (2 * w + 4).min(maxops)..=(6 * w + 20).min(maxops.max(2 * w + 4));
            let post = vec((prop_oneof![4 => Just(0u8), 4 => Just(1u8), 1 => Just(2u8)], inp_post()), post_len);
            let other = any_kind().prop_flat_map(|k| cfg_for(k, 24, multiplier_any()));
            let dirt = prop_oneof![2 => Just(vec![]), 1 => vec(inp_special(3), 1..=(2 * w + 5))];
            (Just(cfg), pre, post, other, any::<bool>(), dirt, prop_oneof![3 => Just(0usize), 1 => 1usize..4, 1 => Just(w)])
        })
        .prop_map(|(cfg, pre, post, other, th, clone_from_dirt, dirt_period_delta)| {
            let clone_at = pre.len();
            // a reset() before about one input in 24 (chosen from the input's own bits: a pure function of the case)
            let ops = pre.into_iter().chain(post).map(|(target, inp)| { let r = (inp.bar.c.to_bits() ^ inp.bar.v.to_bits().rotate_left(13)).wrapping_mul(0x9E3779B97F4A7C15) >> 59 == 3 && (inp.bar.h.to_bits() >> 3) % 3 != 0; COp { target, inp, reset: r } }).collect();
            Case { cfg, other: Some(other), replay_in_new_thread: th, clone_from_dirt, dirt_period_delta, predecessor: vec![], ops, clone_at }
        })
        .boxed()
}

// --- twins in lock-step over a very long history ----
#[derive(Clone, Debug, Serialize, Deserialize)]
pub struct TwinCase {
    pub cfg: Cfg,
    pub seed: u64,
    pub len: usize,
}
pub fn check_twins(c: &TwinCase, ctx: &mut Ctx) -> Result<(), Failure> {
    let mut a = fresh(&c.cfg)?;
    let mut b = fresh(&c.cfg)?;
    let mut gen = crate::props::c13::Gen::new(c.seed, 0, 23.17, 5);
    let scalar = c.cfg.kind.scalar();
    for i in 0..c.len {
        let bar = gen.bar();
        let (oa, ob) = if scalar && i % 2 == 0 { (a.next_scalar(bar.c), b.next_scalar(bar.c)) } else { (a.next_bar(&bar), b.next_bar(&bar)) };
        if !oa.bits_eq(&ob) {
            ctx.fail(
                format!("C05:{}:nondeterministic", c.cfg.kind.name()),
                format!("{}: two instances built with the same parameters and fed the same history differ at step {}: {:?} vs {:?}", c.cfg.tag(), i, oa.vals(), ob.vals()),
            )?;
            return Ok(());
        }
    }
    let mut fp = Fp::new("C05W");
    c.cfg.fp(&mut fp);
    fp.u(c.seed);
    ctx.nontrivial(fp);
    ctx.label("twins_long");
    Ok(())
}

// --- thread stage ---------------------------------------------------------------------------------------
#[derive(Clone, Debug, Serialize, Deserialize)]
pub struct TCase {
    pub work: Vec<(Cfg, Vec<Inp>)>,
}

fn run_work(ind: &mut Ind, inputs: &[Inp]) -> Vec<Out> {
    inputs.iter().map(|i| feed(ind, i)).collect()
}

/// Built without the thread stage (feature `nothreads`): `./check` falls back to this when the ordinary build fails,
/// so that an indicator that stopped being `Send`/`Sync` (a matter of C19, the type checker) does not turn every
/// check into "inconclusive"; the stage then only runs the sequential half.
#[cfg(feature = "nothreads")]
pub fn check_threads(c: &TCase, ctx: &mut Ctx) -> Result<(), Failure> {
    for (cfg, inputs) in &c.work {
        let mut ind = fresh(cfg)?;
        let _ = run_work(&mut ind, inputs);
    }
    ctx.label("thread_stage_disabled_nothreads_build");
    Ok(())
}

#[cfg(not(feature = "nothreads"))]
pub fn check_threads(c: &TCase, ctx: &mut Ctx) -> Result<(), Failure> {
    // sequential run
    let mut seq: Vec<Vec<Out>> = vec![];
    for (cfg, inputs) in &c.work {
        let mut ind = fresh(cfg)?;
        seq.push(run_work(&mut ind, inputs));
    }
    // concurrent run: instances are built on this thread and moved (Send) into the workers,
    // a shared reference (Sync) is read by all of them while they work
    let shared = fresh(&c.work[0].0)?;
    let shared_disp = shared.display();
    let barrier = std::sync::Barrier::new(c.work.len());
    let mut insts: Vec<Ind> = vec![];
    for (cfg, _) in &c.work {
        insts.push(fresh(cfg)?);
    }
    let results: Vec<(Vec<Out>, bool)> = std::thread::scope(|sc| {
        let hs: Vec<_> = insts
            .into_iter()
            .zip(c.work.iter())
            .map(|(mut ind, (_, inputs))| {
                let barrier = &barrier;
                let shared = &shared;
                let shared_disp = &shared_disp;
                sc.spawn(move || {
                    barrier.wait();
                    let mut ok = true;
                    let mut outs = Vec::with_capacity(inputs.len());
                    for (j, i) in inputs.iter().enumerate() {
                        outs.push(feed(&mut ind, i));
                        if j % 16 == 0 {
                            ok &= shared.display() == *shared_disp;
                            let mut cl = shared.clone();
                            let _ = feed(&mut cl, i);
                        }
                    }
                    (outs, ok)
                })
            })
            .collect();
        hs.into_iter().map(|h| h.join().expect("HARNESS: worker thread panicked")).collect()
    });
    let mut fp = Fp::new("C05T");
    for (w, ((cfg, inputs), (outs, ok))) in c.work.iter().zip(results.iter()).enumerate() {
        cfg.fp(&mut fp);
        fp.u(inputs.len() as u64);
        if !ok {
            ctx.fail(format!("C05:{}:shared_read_changed", cfg.kind.name()), format!("Display of an instance only read concurrently changed"))?;
        }
        for (s, o) in outs.iter().enumerate() {
            if !o.bits_eq(&seq[w][s]) {
                ctx.fail(
                    format!("C05:{}:thread_interference", cfg.kind.name()),
                    format!("{}: thread {} output #{} = {:?} when 16 distinct instances run concurrently, {:?} sequentially", cfg.tag(), w, s, o.vals(), seq[w][s].vals()),
                )?;
                break;
            }
        }
    }
    ctx.nontrivial(fp);
    ctx.label("thread_rounds");
    Ok(())
}

fn thread_strategy() -> BoxedStrategy<TCase> {
    vec(any_kind().prop_flat_map(|k| cfg_for(k, 300, multiplier_any())).prop_flat_map(|cfg| { let w = flush_len(&cfg); (Just(cfg), vec(inp_special(4), (w + 20)..=(2 * w + 200))) }), 16..=16)
        .prop_map(|work| TCase { work })
        .boxed()
}

const EALPHA: [f64; 3] = [1.0, 3.0, f64::NAN];

pub fn run(g: &mut Global) {
    g.rule = "exhaustive: all 22 indicators x periods 1..=3 x every sequence of L operations over {original, clone} x {1, 3, NaN} x every clone position 0..=L; the same over {original, clone} x {1, 3} x {fed directly, reset() first} (enum_with_resets; the random stage also resets a target before about one input in 50, the replay model doing the same); random: proptest interleavings over original / clone / unrelated instance with special values, clone taken after the window filled; thread stage: 16 distinct instances moved into 16 threads behind a barrier, compared with the sequential run. Oracle (replay model): every instance's outputs are bit-identical to those of a fresh instance fed exactly the inputs addressed to it (the clone: the original's prefix, then its own). Non-trivial = clone taken after >= n inputs and afterwards original and clone each received >= n+1 inputs with >= 2 switches between them; distinct by hash of (kind, parameters, clone position, targets, inputs).".into();
    g.assumptions = vec![
        "bit-identical comparison (to_bits), NaN payloads included".into(),
        "OS thread schedules are not controlled; the deciding evidence is the single-thread interleaving model, the thread stage is supporting evidence for lock/atomic-guarded shared state".into(),
    ];
    let l = g.tier.pick(5usize, 7usize);
    let per = ipow(6, l) * (l as u64 + 1);
    g.exhaustive(
        "enum",
        per * 3 * 22,
        &move |i| {
            let r = i / per;
            let n = (r % 3) as usize + 1;
            let kind: Kind = ALL_KINDS[(r / 3) as usize];
            let j = i % per;
            let clone_at = (j % (l as u64 + 1)) as usize;
            let d = digits(j / (l as u64 + 1), 6, l);
            let ops = d.iter().map(|&x| COp { target: (x / 3) as u8, inp: letter(EALPHA[x % 3]), reset: false }).collect();
            Case { cfg: cfg_small(kind, n), other: None, replay_in_new_thread: false, clone_from_dirt: if i % 2 == 0 { vec![] } else { vec![letter(7.0), letter(2.0), letter(9.0)] }, dirt_period_delta: (i % 3) as usize, predecessor: vec![], ops, clone_at }
        },
        &check,
    );
    // the same enumeration with reset() among the operations: every sequence of L' operations over
    // {original, clone} x {1, 3} x {fed directly, reset() first}, every clone position (what a reset does to state
    // that a clone may still share — copy-on-write buffers, reference-counted windows — shows only here)
    let l2 = g.tier.pick(4usize, 5usize);
    let per_r = ipow(8, l2) * (l2 as u64 + 1);
    g.exhaustive(
        "enum_with_resets",
        per_r * 3 * 22,
        &move |i| {
            let r = i / per_r;
            let n = (r % 3) as usize + 1;
            let kind: Kind = ALL_KINDS[(r / 3) as usize];
            let j = i % per_r;
            let clone_at = (j % (l2 as u64 + 1)) as usize;
            let d = digits(j / (l2 as u64 + 1), 8, l2);
            let ops = d.iter().map(|&x| COp { target: ((x / 2) % 2) as u8, inp: letter([1.0, 3.0][x % 2]), reset: x >= 4 }).collect();
            Case { cfg: cfg_small(kind, n), other: None, replay_in_new_thread: false, clone_from_dirt: if i % 4 != 1 { vec![] } else { vec![letter(7.0), letter(2.0)] }, dirt_period_delta: 0, predecessor: vec![], ops, clone_at }
        },
        &check,
    );
    // clone_from matrix: every (target history, source history) pair of sequences over three values, up to a
    // little more than one window each — targets older, younger and exactly as old as the source, with the same
    // values in another order (a clone_from that reuses the target's buffers, copies only "the filled part", or
    // skips the copy when both "run in step" shows only on particular pairs)
    let ml3 = g.tier.pick(4usize, 5usize);
    let nseq = |ml: usize| (ipow(3, ml + 1) - 1) / 2;
    let (s2, s3) = (nseq(4), nseq(ml3));
    let per2 = s2 * s2 * 2;
    let per3 = s3 * s3 * 2;
    fn seq_of(mut idx: u64, ml: usize) -> Vec<usize> {
        for l in 0..=ml {
            let c = ipow(3, l);
            if idx < c {
                return digits(idx, 3, l);
            }
            idx -= c;
        }
        vec![]
    }
    g.exhaustive(
        "clone_from_matrix",
        (per2 + per3) * 22,
        &move |i| {
            let kind: Kind = ALL_KINDS[(i % 22) as usize];
            let r = i / 22;
            let (n, ml, sn, r) = if r < per2 { (2usize, 4usize, s2, r) } else { (3usize, ml3, s3, r - per2) };
            let cont = r % 2;
            let r = r / 2;
            let vals = [1.0, 2.0, 3.0];
            let src = seq_of(r % sn, ml);
            let dirt = seq_of(r / sn, ml);
            let delta = [0usize, 0, 1, 2][((r % sn + r / sn) % 4) as usize];
            let mut ops: Vec<COp> = src.iter().map(|&x| COp { target: 0, inp: letter(vals[x]), reset: false }).collect();
            let clone_at = ops.len();
            for j in 0..n + 2 {
                let v = if cont == 0 { vals[(j + 1) % 3] } else { vals[(2 * j) % 3] };
                ops.push(COp { target: 0, inp: letter(v), reset: false });
                ops.push(COp { target: 1, inp: letter(v), reset: false });
            }
            // an empty dirt list would mean plain clone(): keep clone_from by feeding then resetting nothing — use
            // a one-element history instead (the empty target is covered by the enum stage)
            let dirt: Vec<Inp> = if dirt.is_empty() { vec![letter(2.0)] } else { dirt.iter().map(|&x| letter(vals[x])).collect() };
            Case { cfg: cfg_small(kind, n), other: None, replay_in_new_thread: false, clone_from_dirt: dirt, dirt_period_delta: delta, predecessor: vec![], ops, clone_at }
        },
        &check,
    );
    // a predecessor with the same parameters that dies in the middle of a strictly monotone run, then the original
    // continues that run from its first input (replayed on a fresh thread): nothing the predecessor did may be
    // inherited through a recycled buffer address or a per-thread table
    let seedp = g.seed;
    g.exhaustive(
        "predecessor_trend",
        22 * 6 * 2 * 8,
        &move |i| {
            let rep = i % 8;
            let r = i / 8;
            let up = r % 2 == 0;
            let r = r / 2;
            let n = [3usize, 16, 17, 33, 64, 100][(r % 6) as usize];
            let kind: Kind = ALL_KINDS[(r / 6) as usize];
            let mut st = seedp ^ (i + 23).wrapping_mul(0x9E3779B97F4A7C15);
            let step = |t: usize| if up { 100.0 + t as f64 * 0.5 } else { 5000.0 - t as f64 * 0.5 };
            let plen = n + 5 + (rep as usize) * 3;
            let predecessor: Vec<Inp> = (0..plen).map(|t| letter(step(t))).collect();
            let mut ops: Vec<COp> = (0..2 * n + 6).map(|t| COp { target: 0, inp: letter(step(plen + t) + 0.001 * unit(&mut st)), reset: false }).collect();
            let clone_at = n + 2;
            for t in 0..n + 2 {
                ops.push(COp { target: (t % 2) as u8, inp: letter(step(plen + 2 * n + 6 + t)), reset: false });
            }
            Case { cfg: cfg_small(kind, n), other: None, replay_in_new_thread: true, clone_from_dirt: vec![], dirt_period_delta: 0, predecessor, ops, clone_at }
        },
        &check,
    );
    // an instance of another kind with the same period fed the same input immediately before (or after) the
    // original at every step, in lock-step: a value handed from one indicator to "the next one that matches"
    // through a per-thread slot reaches the wrong instance
    g.exhaustive(
        "lockstep_other_kind",
        22 * 22 * 3 * 2 * 2,
        &move |i| {
            let before = i % 2 == 0;
            let r = i / 2;
            let fam = r % 2;
            let r = r / 2;
            let n = [2usize, 5, 14][(r % 3) as usize];
            let r = r / 3;
            let kind: Kind = ALL_KINDS[(r % 22) as usize];
            let okind: Kind = ALL_KINDS[(r / 22) as usize];
            let mut st = seedp ^ (i + 57).wrapping_mul(0x9E3779B97F4A7C15);
            let mut ops: Vec<COp> = Vec::with_capacity(8 * n + 24);
            let len = 4 * n + 12;
            for t in 0..len {
                let v = if fam == 0 { 20.0 + (splitmix(&mut st) % 9) as f64 * 0.25 } else { 50.0 + 40.0 * unit(&mut st) };
                let inp = if t % 3 == 0 { letter_bar(v) } else { letter(v) };
                let tgt = if t >= 2 * n + 3 && t % 2 == 1 { 1u8 } else { 0u8 };
                if before {
                    ops.push(COp { target: 2, inp: inp.clone(), reset: false });
                    ops.push(COp { target: tgt, inp, reset: false });
                } else {
                    ops.push(COp { target: tgt, inp: inp.clone(), reset: false });
                    ops.push(COp { target: 2, inp, reset: false });
                }
            }
            Case { cfg: cfg_small(kind, n), other: Some(cfg_small(okind, n)), replay_in_new_thread: i % 3 == 0, clone_from_dirt: vec![], dirt_period_delta: 0, predecessor: vec![], ops, clone_at: 2 * (2 * n + 3) }
        },
        &check,
    );
    let cap = g.tier.pick(300usize, 1024usize);
    let maxops = g.tier.pick(2500usize, 8000usize);
    g.random("random", g.tier.pick(40000, 300000), &move || strategy(cap, maxops), &check);
    g.random("threads", g.tier.pick(208, 5008), &thread_strategy, &check_threads);
    // twins: two instances with the same parameters fed the same history in lock-step for more than 2^24
    // steps, compared bit for bit at every step (a process-wide counter or cache shared between instances
    // would hit exactly one of them at some count)
    let seed = g.seed;
    let thorough = g.tier == Tier::Thorough;
    g.exhaustive(
        "twins_long",
        22,
        &move |i| {
            let kind = ALL_KINDS[i as usize];
            let heavy = matches!(kind, Kind::Mad | Kind::Cci | Kind::Er);
            let cheap = matches!(kind, Kind::Sma | Kind::Ema | Kind::Wma | Kind::Sd | Kind::Min | Kind::Max | Kind::Rsi | Kind::Mfi | Kind::Roc | Kind::Tr);
            let len = if cheap || thorough { (1usize << 24) + 3000 } else { (1usize << 20) + 3000 };
            TwinCase { cfg: cfg_small(kind, if heavy { 3 } else { [3usize, 20, 5][(i % 3) as usize] }), seed: seed ^ (i + 1).wrapping_mul(0x9E3779B97F4A7C15), len }
        },
        &check_twins,
    );
    if g.tier == Tier::Thorough {
        g.fuzz_stage("ops_equiv", Some(1), 2_000_000, "random", &|b| crate::fuzzdec::decode_c05(b), &check);
    }
}
