//! C12 — next() is total: no panic or out-of-bounds for any input and valid configuration.

use crate::adapter::{Ind, Kind, RawBar, ALL_KINDS};
use crate::fw::*;
use crate::gen::*;
use crate::hist::*;
use proptest::collection::vec;
use proptest::prelude::*;
use serde::{Deserialize, Serialize};

#[derive(Clone, Debug, Serialize, Deserialize)]
pub enum TOp {
    Next(Inp),
    Reset,
    /// continue with a clone of the instance
    CloneSwap,
    /// `instance.clone_from(&other)` where other is an instance of the same kind with different periods
    CloneFromOther,
    Display,
    Debug,
    Serialize,
    /// serde build: continue with the instance restored from its own bytes (a clone otherwise)
    RoundTrip,
}

#[derive(Clone, Debug, Serialize, Deserialize)]
pub struct Case {
    pub cfg: Cfg,
    pub ops: Vec<TOp>,
}

fn is_extreme(x: f64) -> bool {
    !x.is_finite() || x.abs() >= 1e300 || (x != 0.0 && x.abs() < f64::MIN_POSITIVE * 4.0)
}

pub fn check(c: &Case, ctx: &mut Ctx) -> Result<(), Failure> {
    let small_window = c.cfg.p.iter().all(|&q| q <= 64);
    let k = c.cfg.kind;
    let name = k.name();
    let p = c.cfg.params();
    let built = guarded(|| Ind::build(k, &p));
    let mut ind = match built {
        Ok(Ok(i)) => i,
        Ok(Err(_)) => return Err(Failure { signature: "C12:harness".into(), detail: "HARNESS: invalid configuration generated".into() }),
        Err(msg) => {
            ctx.fail(format!("C12:{}:new:panic", name), format!("{}: constructor panicked: {}", c.cfg.tag(), msg))?;
            return Ok(());
        }
    };
    let mut fp = Fp::new("C12");
    c.cfg.fp(&mut fp);
    let mut calls_after_extreme: Option<usize> = None;
    let mut travelled = false;
    let w = flush_len(&c.cfg);
    for (i, op) in c.ops.iter().enumerate() {
        let (opname, r): (&str, Result<(), String>) = match op {
            TOp::Next(inp) => {
                fp.f(inp.bar.c);
                fp.f(inp.bar.h);
                fp.f(inp.bar.l);
                fp.f(inp.bar.v);
                fp.u(inp.scalar as u64);
                let b = &inp.bar;
                if is_extreme(b.c) || (!inp.scalar || !k.scalar()) && (is_extreme(b.h) || is_extreme(b.l) || is_extreme(b.v)) {
                    if calls_after_extreme.is_none() {
                        calls_after_extreme = Some(0);
                    }
                } else if let Some(n) = calls_after_extreme.as_mut() {
                    *n += 1;
                    if *n >= w.saturating_add(1) {
                        travelled = true;
                    }
                }
                ("next", guarded(|| {
                    let _ = feed(&mut ind, inp);
                }))
            }
            TOp::Reset => {
                fp.u(1);
                ("reset", guarded(|| ind.reset()))
            }
            TOp::CloneSwap => {
                fp.u(2);
                let r = guarded(|| ind.clone());
                match r {
                    Ok(cl) => {
                        ind = cl;
                        ("clone", Ok(()))
                    }
                    Err(e) => ("clone", Err(e)),
                }
            }
            TOp::CloneFromOther => {
                fp.u(6);
                let mut oc = c.cfg.clone();
                for p in oc.p.iter_mut() {
                    *p = *p % 61 + 2;
                }
                let r = guarded(|| {
                    let mut other = Ind::build(k, &oc.params()).expect("HARNESS: other cfg");
                    let _ = feed(&mut other, &letter(3.0));
                    ind.clone_from_same(&other);
                });
                ("clone_from", r)
            }
            TOp::RoundTrip => {
                fp.u(7);
                #[cfg(feature = "serde")]
                let r = guarded(|| ind.ser().ok().and_then(|b| Ind::de(k, &b).ok()));
                #[cfg(not(feature = "serde"))]
                let r = guarded(|| Some(ind.clone()));
                match r {
                    Ok(Some(restored)) => {
                        ind = restored;
                        ("roundtrip", Ok(()))
                    }
                    // a refused round trip is C06's business; C12 only asks that nothing panics
                    Ok(None) => ("roundtrip", Ok(())),
                    Err(e) => ("roundtrip", Err(e)),
                }
            }
            TOp::Display => {
                fp.u(3);
                ("display", guarded(|| {
                    let _ = ind.display();
                    let _ = ind.display_variants();
                }))
            }
            TOp::Debug => {
                fp.u(4);
                ("debug", guarded(|| {
                    let _ = ind.debug();
                }))
            }
            TOp::Serialize => {
                fp.u(5);
                #[cfg(feature = "serde")]
                {
                    ("serialize", guarded(|| {
                        let _ = ind.ser();
                        // a self-describing format as well (refusals and unrepresentable states are not C12's business)
                        // (small windows only: formatting thousands of floats per operation would dominate the fuzz stage)
                        if small_window {
                            let _ = ind.roundtrip_json(false);
                        }
                    }))
                }
                #[cfg(not(feature = "serde"))]
                {
                    ("serialize", Ok(()))
                }
            }
        };
        if let Err(msg) = r {
            if panic_is_harness(&msg) {
                panic!("HARNESS: {}", msg);
            }
            ctx.fail(
                format!("C12:{}:{}:panic", name, opname),
                format!("{}: op #{} ({}) panicked: {}; op = {:?}", c.cfg.tag(), i, opname, msg, op),
            )?;
            return Ok(());
        }
    }
    ctx.label(&format!("kind:{}", name));
    if travelled {
        ctx.nontrivial(fp);
        ctx.label("nontrivial");
    }
    Ok(())
}

// ---- deterministic sweep ---------------------------------------------------------------------------
fn sched_value(s: usize, i: usize) -> f64 {
    let ord = [1.0, 2.5, 4.0, 3.0, 10.0, 0.1, 7.0];
    match s {
        0 => ord[i % 7] + i as f64,
        1 => {
            if i % 3 == 1 {
                f64::NAN
            } else {
                ord[i % 7]
            }
        }
        2 => {
            if i % 2 == 0 {
                f64::INFINITY
            } else {
                f64::NEG_INFINITY
            }
        }
        3 => {
            if i % 4 == 0 {
                f64::MAX
            } else if i % 4 == 2 {
                f64::MIN
            } else {
                ord[i % 7]
            }
        }
        4 => [5e-324, 0.0, -0.0, f64::MIN_POSITIVE, -5e-324, 1.0][i % 6],
        6 => f64::NAN,
        7 => {
            // NaN only in the second field (high) of each bar: i = call*5 + field
            if i % 5 == 1 {
                f64::NAN
            } else {
                ord[i % 7]
            }
        }
        _ => {
            if i % 2 == 0 {
                SPECIALS[(i / 2) % SPECIALS.len()]
            } else {
                ord[i % 7]
            }
        }
    }
}
fn sweep_case(kind: Kind, n: usize, s: usize, reset_phase: usize) -> Case {
    sweep_case_clone(kind, n, s, reset_phase, (3 * n + 3) / 2)
}

/// `clone_at`: the call index after which the instance is replaced by its clone (and serialized)
fn sweep_case_clone(kind: Kind, n: usize, s: usize, reset_phase: usize, clone_at: usize) -> Case {
    sweep_case_calls(kind, n, s, reset_phase, clone_at, 3 * n + 3)
}

fn sweep_case_calls(kind: Kind, n: usize, s: usize, reset_phase: usize, clone_at: usize, calls: usize) -> Case {
    let mut ops = Vec::with_capacity(calls + 4);
    for i in 0..calls {
        if reset_phase > 0 && i == n + reset_phase - 1 {
            ops.push(TOp::Reset);
        }
        let v = |o: usize| sched_value(s, i * 5 + o);
        // five independent fields: bars violate low <= close <= high freely
        ops.push(TOp::Next(Inp { bar: RawBar { o: v(0), h: v(1), l: v(2), c: v(3), v: v(4) }, scalar: i % 3 != 2 }));
        if i == clone_at {
            ops.push(TOp::CloneSwap);
            ops.push(TOp::Serialize);
        }
    }
    ops.push(TOp::Display);
    ops.push(TOp::Debug);
    let mut cfg = cfg_small(kind, n);
    if kind.has_mult() {
        cfg.m = X([2.0, 0.0, -3.0, 1e300, f64::NAN, f64::INFINITY, 2.0, 1.5][s]);
    }
    Case { cfg, ops }
}

/// inputs from a pool of three ordinary values (exact ties at every distance, in particular with the value that
/// is leaving the window) mixed with clone, round trip and reset: caches that such events do not carry over are
/// consulted exactly when the incoming value equals an old one
fn tie_strategy() -> BoxedStrategy<Case> {
    any_kind()
        .prop_flat_map(|k| cfg_for(k, 12, prop_oneof![Just(2.0), Just(0.0), Just(-1.5)].boxed()))
        .prop_flat_map(|cfg| {
            let w = flush_len(&cfg);
            let val = prop_oneof![Just(6.0f64), Just(7.0), Just(8.0)];
            let inp = (val.clone(), val.clone(), val.clone(), val, any::<bool>()).prop_map(|(a, b, c, d, scalar)| {
                let (h, l) = (a.max(b), a.min(b));
                Inp { bar: RawBar { o: c, h, l, c: c.clamp(l, h), v: d }, scalar }
            });
            let op = prop_oneof![
                40 => inp.prop_map(TOp::Next),
                2 => Just(TOp::RoundTrip),
                1 => Just(TOp::CloneSwap),
                1 => Just(TOp::Reset),
                1 => Just(TOp::Serialize),
            ];
            (Just(cfg), vec(op, (2 * w + 4)..=(5 * w + 40)))
        })
        .prop_map(|(cfg, ops)| Case { cfg, ops })
        .boxed()
}

fn mult_wild() -> BoxedStrategy<f64> {
    prop_oneof![Just(0.0), Just(-0.0), Just(-1.0), Just(2.5), Just(1e300), Just(-1e300), Just(f64::INFINITY), Just(f64::NAN), Just(f64::MAX), -10.0f64..10.0].boxed()
}

fn strategy(cap: usize, maxops: usize) -> BoxedStrategy<Case> {
    any_kind()
        .prop_flat_map(move |k| cfg_for(k, cap, mult_wild()))
        .prop_flat_map(move |cfg| {
            let w = flush_len(&cfg);
            let op = prop_oneof![
                60 => inp_special(25).prop_map(TOp::Next),
                20 => inp_finite().prop_map(TOp::Next),
                2 => Just(TOp::Reset),
                1 => Just(TOp::CloneSwap),
                1 => Just(TOp::CloneFromOther),
                1 => Just(TOp::Display),
                1 => Just(TOp::Debug),
                1 => Just(TOp::Serialize),
                1 => Just(TOp::RoundTrip),
            ];
            let lo = (w + 3).min(maxops);
            let hi = (3 * w + 30).min(maxops).max(lo);
            (Just(cfg), vec(op, lo..=hi))
        })
        .prop_map(|(cfg, ops)| Case { cfg, ops })
        .boxed()
}

pub fn run(g: &mut Global) {
    g.rule = "sweep (exhaustive over its index space): all 22 indicators x every period 1..=64 x 8 value schedules (ordinary, NaN every third, alternating +-inf, +-f64::MAX, subnormals and signed zeros, rotating specials, all-NaN flood, NaN in every high; bars with five independent fields, scalar and bar paths interleaved, multipliers 2/0/-3/1e300/NaN/inf) x a reset injected at every phase of the ring (or none), each run for 3*period+3 calls plus clone, serialize, Display, Debug; random: proptest sequences of Next(scalar or raw bar with special-valued fields) | Reset | Clone | clone_from | Display | Debug | Serialize | continue-with-the-deserialized-copy for periods up to 4096; ties_and_roundtrips: inputs from a pool of three values with clone, round trip and reset for periods up to 12. Oracle: every call returns (catch_unwind around each call into ta; harness built with overflow checks and debug assertions). Non-trivial = the sequence contains a non-finite or extreme value followed by at least period+1 further calls; distinct by hash of (kind, parameters, operations).".into();
    g.assumptions = vec![
        "termination is watched by a process watchdog: a hang ends the run with exit 2 (inconclusive), not with a violation".into(),
        "windowed periods are limited to 4096 (allocation size), allocation-free ones are covered by C11 up to usize::MAX".into(),
    ];
    let phases = 67u64; // 0 = no reset, 1..=66 = reset before call n+phase-1 (ignored when past the end)
    g.exhaustive(
        "sweep",
        22 * 64 * 8 * phases,
        &move |i| {
            let ph = (i % phases) as usize;
            let r = i / phases;
            let s = (r % 8) as usize;
            let r = r / 8;
            let n = (r % 64) as usize + 1;
            let kind = ALL_KINDS[(r / 64) as usize];
            let ph = if ph > 2 * n + 3 { 0 } else { ph };
            sweep_case(kind, n, s, ph)
        },
        &check,
    );
    // the clone taken at every phase of the ring (fresh, warming up, exactly full, wrapped), then continued
    g.exhaustive(
        "sweep_clone_phase",
        22 * 64 * 2 * 67,
        &|i| {
            let ph = (i % 67) as usize;
            let r = i / 67;
            let s = [0usize, 5][(r % 2) as usize];
            let r = r / 2;
            let n = (r % 64) as usize + 1;
            let kind = ALL_KINDS[(r / 64) as usize];
            sweep_case_clone(kind, n, s, 0, ph.min(3 * n + 2))
        },
        &check,
    );
    // larger structural periods (around powers of two and block sizes), every schedule, a few reset phases
    const BIGP: [usize; 14] = [65, 100, 127, 128, 129, 130, 192, 200, 255, 256, 257, 300, 513, 1000];
    g.exhaustive(
        "sweep_large_periods",
        22 * 14 * 8 * 4,
        &|i| {
            let ph = [0usize, 1, 2, 7][(i % 4) as usize];
            let r = i / 4;
            let s = (r % 8) as usize;
            let r = r / 8;
            let n = BIGP[(r % 14) as usize];
            let kind = ALL_KINDS[(r / 14) as usize];
            sweep_case(kind, n, s, if ph == 7 { n / 2 } else { ph })
        },
        &check,
    );
    // windows of 2^16 slots and a little more ("large periods" without a stated end: a 16-bit cursor, a u32 product
    // of the fill count, a table with 65 536 entries): the whole warm-up and a second turn of the ring; the
    // O(n)-per-step indicators run the warm-up and 40 calls more, for one size only
    const HUGE: [usize; 3] = [65_536, 65_537, 70_000];
    let thorough = g.tier == Tier::Thorough;
    g.exhaustive(
        "huge_windows",
        if thorough { 22 * 3 * 2 } else { 22 },
        &move |i| {
            // quick: one size (65 537), the ordinary schedule, the O(n)-per-step kinds at 4 100 slots
            let i = if thorough { i } else { i * 6 + 2 };
            let s = [0usize, 2][(i % 2) as usize];
            let n = HUGE[((i / 2) % 3) as usize];
            let kind = ALL_KINDS[(i / 6) as usize];
            let heavy = matches!(kind, Kind::Mad | Kind::Cci | Kind::Er);
            if heavy {
                let n = if n == 65_537 && thorough { n } else { 4099 + (n % 7) };
                sweep_case_calls(kind, n, s, 0, n + 5, n + 40)
            } else {
                sweep_case_calls(kind, n, s, 0, n + 5, 2 * n + 40)
            }
        },
        &check,
    );
    // a reset 0..7 calls before the call count reaches a power of two (2^8 .. 2^16), then the refill:
    // periodic maintenance keyed to a lifetime call counter lands inside a warm-up it did not expect
    g.exhaustive(
        "reset_before_pow2",
        22 * 3 * 9 * 8,
        &|i| {
            let d = (i % 8) as usize;
            let r = i / 8;
            let pw = [256usize, 512, 1024, 2048, 4096, 8192, 16_384, 32_768, 65_536][(r % 9) as usize];
            let r = r / 9;
            let n = [3usize, 6, 14][(r % 3) as usize];
            let kind = ALL_KINDS[(r / 3) as usize];
            let mut ops: Vec<TOp> = Vec::with_capacity(pw + 40);
            for c in 0..pw + 2 * n + 8 {
                if c + d + 1 == pw {
                    ops.push(TOp::Reset);
                }
                ops.push(TOp::Next(Inp { bar: RawBar { o: sched_value(0, c * 5), h: sched_value(0, c * 5 + 1) + 3.0, l: sched_value(0, c * 5 + 2) - 3.0, c: sched_value(0, c * 5 + 3), v: 10.0 }, scalar: c % 3 != 2 }));
            }
            Case { cfg: cfg_small(kind, n), ops }
        },
        &check,
    );
    // very many calls on one instance (beyond 2^16 turns of the ring for periods 1..=4)
    g.exhaustive(
        "many_calls",
        22 * 4 * 2,
        &|i| {
            let s = [0usize, 5][(i % 2) as usize];
            let n = ((i / 2) % 4) as usize + 1;
            let kind = ALL_KINDS[(i / 8) as usize];
            let calls = 66_000 * n + 50;
            let ops = (0..calls).map(|c| TOp::Next(Inp { bar: RawBar { o: sched_value(s, c * 5), h: sched_value(s, c * 5 + 1), l: sched_value(s, c * 5 + 2), c: sched_value(s, c * 5 + 3), v: sched_value(s, c * 5 + 4) }, scalar: c % 3 != 2 })).collect();
            Case { cfg: cfg_small(kind, n), ops }
        },
        &check,
    );
    let cap = g.tier.pick(512usize, 4096usize);
    let maxops = g.tier.pick(1500usize, 13000usize);
    // window-less indicators at the top of the period range (usize::MAX, MAX-1, 2^53+1, 2^32, 2^31 in every
    // period argument that allocates nothing): valid configurations, every value schedule, with reset and clone
    let bc: Vec<Cfg> = crate::props::c11::boundary_cfgs().into_iter().filter(|c| c.p.iter().all(|&p| p > 0)).collect();
    let nbc = bc.len() as u64;
    g.exhaustive(
        "boundary_periods",
        nbc * 8,
        &move |i| {
            let cfg = bc[(i / 8) as usize].clone();
            let s = (i % 8) as usize;
            let mut c = sweep_case_clone(cfg.kind, 3, s, 2, 4);
            c.cfg = cfg;
            c
        },
        &check,
    );
    g.random("random", g.tier.pick(20000, 100000), &move || strategy(cap, maxops), &check);
    g.random("ties_and_roundtrips", g.tier.pick(60000, 600000), &tie_strategy, &check);
    if g.tier == Tier::Thorough {
        g.fuzz_stage("ops_total", None, 2_000_000, "random", &|b| crate::fuzzdec::decode_c12(b), &check);
    }
}
