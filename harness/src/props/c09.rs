//! C09 — dispersion measures are non-negative and bands are ordered around their middle.

use crate::adapter::{Ind, Kind, Params, RawBar};
use crate::fw::*;
use crate::gen::*;
use crate::hist::cfg_small;
use crate::refs::*;
use proptest::prelude::*;
use serde::{Deserialize, Serialize};

#[derive(Clone, Debug, Serialize, Deserialize)]
pub struct Case {
    /// kind Min stands for the pair (Minimum, Maximum) fed the same stream
    pub cfg: Cfg,
    pub scalar: bool,
    pub xs: Vec<X>,
    pub bars: Vec<RawBar>,
}

pub fn check(c: &Case, ctx: &mut Ctx) -> Result<(), Failure> {
    let k = c.cfg.kind;
    let hfail = || Failure { signature: "C09:harness".into(), detail: "HARNESS build".into() };
    let mut ind = Ind::build(k, &c.cfg.params()).map_err(|_| hfail())?;
    let mut maxi = if k == Kind::Min { Some(Ind::build(Kind::Max, &Params::one(c.cfg.n())).map_err(|_| hfail())?) } else { None };
    check_on(c, ctx, &mut ind, &mut maxi)
}

/// a case with reset() calls: `resets[j]` = number of inputs fed before the j-th reset. Each stretch between
/// resets is judged as a stream of its own (t counts inputs since the reset, as the property defines it) on the
/// *same* instance.
#[derive(Clone, Debug, Serialize, Deserialize)]
pub struct RCase {
    pub case: Case,
    pub resets: Vec<usize>,
}

pub fn check_resets(r: &RCase, ctx: &mut Ctx) -> Result<(), Failure> {
    let c = &r.case;
    let mut ind = Ind::build(c.cfg.kind, &c.cfg.params()).map_err(|_| Failure { signature: "C09:harness".into(), detail: "HARNESS build".into() })?;
    let mut maxi = if c.cfg.kind == Kind::Min { Some(Ind::build(Kind::Max, &Params::one(c.cfg.n())).map_err(|_| Failure { signature: "C09:harness".into(), detail: "HARNESS build".into() })?) } else { None };
    let len = if c.scalar { c.xs.len() } else { c.bars.len() };
    let mut cuts: Vec<usize> = r.resets.iter().copied().filter(|&x| x > 0 && x < len).collect();
    cuts.sort_unstable();
    cuts.dedup();
    cuts.push(len);
    let mut a = 0usize;
    for (j, &b) in cuts.iter().enumerate() {
        if j > 0 {
            ind.reset();
            if let Some(m) = maxi.as_mut() {
                m.reset();
            }
            ctx.label("segments_after_reset");
        }
        let mut seg = c.clone();
        if c.scalar {
            seg.xs = c.xs[a..b].to_vec();
        } else {
            seg.bars = c.bars[a..b].to_vec();
        }
        // only the last stretch (always one after a reset) is counted, so that a case counts once
        let was = ctx.counting;
        ctx.counting = was && j + 1 == cuts.len();
        let res = check_on(&seg, ctx, &mut ind, &mut maxi);
        ctx.counting = was;
        res?;
        a = b;
    }
    Ok(())
}

pub fn check_on(c: &Case, ctx: &mut Ctx, ind: &mut Ind, maxi: &mut Option<Ind>) -> Result<(), Failure> {
    let k = c.cfg.kind;
    let name = if k == Kind::Min { "MIN_MAX" } else { k.name() };
    let p = c.cfg.params();
    let n = c.cfg.n();
    let len = if c.scalar { c.xs.len() } else { c.bars.len() };
    let mut fp = Fp::new("C09");
    c.cfg.fp(&mut fp);
    fp.u(c.scalar as u64);
    let mut big = 0.0f64;
    let mut hist: Vec<f64> = vec![];
    let mut highs: Vec<f64> = vec![];
    let mut lows: Vec<f64> = vec![];
    let (mut hmin, mut hmax) = (f64::INFINITY, f64::NEG_INFINITY);
    let mut exact = 0u64;
    let mut cancellation = false;
    for i in 0..len {
        crate::tele::step(ind, &c.cfg);
        let (out, bar) = if c.scalar {
            let x = c.xs[i].0;
            fp.f(x);
            big = big.max(x.abs());
            (if crate::tele::scalar_here() { ind.next_bar(&RawBar::flat(x, 0.0)) } else { ind.next_scalar(x) }, RawBar::flat(x, 0.0))
        } else {
            let mut b = c.bars[i];
            // mixed use of both paths on one instance (tele.rs): this step goes through next(close); the
            // reference sees the one-price bar that the scalar path stands for
            let sc = k.scalar() && crate::tele::scalar_here();
            if sc {
                b = RawBar::flat(b.c, b.v);
            }
            fp.f(b.h);
            fp.f(b.l);
            fp.f(b.c);
            big = big.max(b.max_abs_price());
            (if sc { ind.next_scalar(b.c) } else { ind.next_bar(&b) }, b)
        };
        let x = bar.c;
        hist.push(x);
        highs.push(bar.h);
        lows.push(bar.l);
        hmin = hmin.min(x);
        hmax = hmax.max(x);
        let t = i + 1;
        let w0 = t - t.min(n);
        // + 4 units of the smallest subnormal: rounding granularity when the inputs themselves are subnormal
        let s = tau(t) * big + 2e-323;
        if t >= 2 {
            let wmaxabs = hist[w0.min(t - 1)..t - 1].iter().fold(0.0f64, |a, v| a.max(v.abs()));
            if x.abs() > 0.0 && wmaxabs / x.abs() >= 1e6 {
                cancellation = true;
            }
        }
        let mut bad: Option<(&'static str, String)> = None;
        let v = out.v;
        match k {
            Kind::Sd | Kind::Mad => {
                if !(v[0] >= 0.0) {
                    bad = Some(("negative_or_nan", format!("{:e}", v[0])));
                }
            }
            Kind::Tr | Kind::Atr => {
                if !(v[0] >= 0.0) {
                    bad = Some(("negative_or_nan", format!("{:e}", v[0])));
                }
            }
            Kind::Min => {
                let mx = maxi.as_mut().unwrap().next_scalar(x).x();
                if !(v[0] <= mx) {
                    bad = Some(("min_above_max", format!("Minimum {:e} > Maximum {:e}", v[0], mx)));
                }
            }
            Kind::Bb | Kind::Kc => {
                // [average, upper, lower]
                if !(v[2] <= v[0] + s && v[0] <= v[1] + s) {
                    bad = Some(("bands_unordered", format!("lower {:e}, average {:e}, upper {:e} (slack {:e})", v[2], v[0], v[1], s)));
                } else if v[2] <= v[0] && v[0] <= v[1] {
                    exact += 1;
                }
            }
            Kind::Ce => {
                let mx = wmax(&highs[w0..]);
                let mn = wmin(&lows[w0..]);
                if !(v[0] <= mx + s && v[1] >= mn - s) {
                    bad = Some(("exit_outside_extremes", format!("long {:e} vs window max(high) {:e}; short {:e} vs window min(low) {:e} (slack {:e})", v[0], mx, v[1], mn, s)));
                } else if v[0] <= mx && v[1] >= mn {
                    exact += 1;
                }
            }
            Kind::Macd | Kind::Ppo => {
                let d = v[0] - v[1];
                let sl = tau(t) * big.max(v[0].abs()).max(v[1].abs());
                let ok = (d.is_nan() && v[2].is_nan()) || d == v[2] || (d - v[2]).abs() <= sl;
                if !ok {
                    bad = Some(("histogram_mismatch", format!("histogram {:e} vs line - signal = {:e} - {:e} = {:e}", v[2], v[0], v[1], d)));
                } else if d == v[2] || d.is_nan() {
                    exact += 1;
                }
            }
            Kind::Sma | Kind::Wma => {
                let mx = wmax(&hist[w0..]);
                let mn = wmin(&hist[w0..]);
                if !(v[0] >= mn - s && v[0] <= mx + s) {
                    bad = Some(("outside_hull", format!("{:e} outside window [{:e}, {:e}] (slack {:e})", v[0], mn, mx, s)));
                }
            }
            Kind::Ema => {
                if !(v[0] >= hmin - s && v[0] <= hmax + s) {
                    bad = Some(("outside_hull", format!("{:e} outside history [{:e}, {:e}] (slack {:e})", v[0], hmin, hmax, s)));
                }
            }
            _ => unreachable!("HARNESS: kind not in C09"),
        }
        if let Some((sym, what)) = bad {
            ctx.fail(
                format!("C09:{}:{}", name, sym),
                format!("{} ({} path) step {}: {}; last inputs {:?}", c.cfg.tag(), if c.scalar { "scalar" } else { "bar" }, i, what,
                    &hist[t.saturating_sub(n.saturating_add(2))..]),
            )?;
        }
    }
    ctx.label(&format!("kind:{}:{}", name, if c.scalar { "scalar" } else { "bar" }));
    ctx.label_n("relations_holding_with_no_slack", exact);
    let m = c.cfg.m.0;
    let special_mult = k.has_mult() && (m == 0.0 || m >= 1e3);
    if cancellation || special_mult {
        ctx.nontrivial(fp);
        ctx.label("nontrivial");
        if cancellation {
            ctx.label("has_6_decade_drop_within_window");
        }
    }
    Ok(())
}

const ALPHA: [f64; 6] = [-1e12, -1.0, 0.0, 1e-6, 1.0, 1e12];

fn enum_cfgs() -> Vec<Cfg> {
    let mut v = vec![];
    for n in 1..=5usize {
        for kind in [Kind::Sd, Kind::Mad, Kind::Min, Kind::Sma, Kind::Wma, Kind::Ema, Kind::Atr, Kind::Macd] {
            v.push(cfg_small(kind, n));
        }
        for m in [0.0, 2.0] {
            v.push(Cfg { kind: Kind::Bb, p: vec![n], m: X(m) });
        }
        v.push(Cfg { kind: Kind::Kc, p: vec![n], m: X(2.0) });
    }
    v.push(cfg_small(Kind::Tr, 1));
    v
}

const SK: [Kind; 13] = [Kind::Sd, Kind::Mad, Kind::Min, Kind::Bb, Kind::Kc, Kind::Macd, Kind::Ppo, Kind::Sma, Kind::Wma, Kind::Ema, Kind::Tr, Kind::Atr, Kind::Sd];
const BK: [Kind; 4] = [Kind::Tr, Kind::Atr, Kind::Kc, Kind::Ce];

/// huge values followed by flat stretches of small ones, alternating +-M, etc.
fn cancel_stream(lo: usize, hi: usize) -> BoxedStrategy<Vec<f64>> {
    prop_oneof![
        6 => multi_stream(Domain::AnySign, lo, hi).prop_map(|s| s.vals),
        1 => stream(Domain::TinyAnySign, lo, hi).prop_map(|s| s.vals),
        1 => stream(Domain::TinyPositive, lo, hi).prop_map(|s| s.vals),
        4 => (proptest::collection::vec((0.0f64..1.0, 0.0f64..1.0), lo..=hi), -6.0f64..12.0, -6.0f64..3.0).prop_map(|(us, eb, es)| {
            // blocks: a few huge values, then a flat stretch of a small one
            let bigv = 10f64.powf(eb);
            let small = 10f64.powf(es);
            let mut out = Vec::with_capacity(us.len());
            let mut mode_small = false;
            for (a, b) in us {
                if a > 0.85 {
                    mode_small = !mode_small;
                }
                out.push(if mode_small { small } else if b > 0.5 { bigv * (1.0 + b) } else { -bigv * (1.0 + b) });
            }
            out
        }),
    ]
    .boxed()
}

fn reset_strategy() -> BoxedStrategy<RCase> {
    (strategy_cap(10, 200, 40), proptest::collection::vec(any::<u16>(), 1..4))
        .prop_map(|(case, pk)| {
            let len = if case.scalar { case.xs.len() } else { case.bars.len() };
            let resets = crate::hist::reset_positions(case.cfg.n(), len, &pk);
            RCase { case, resets }
        })
        .boxed()
}
fn strategy(lo: usize, hi: usize) -> BoxedStrategy<Case> {
    strategy_cap(lo, hi, 512)
}
fn strategy_cap(lo: usize, hi: usize, cap: usize) -> BoxedStrategy<Case> {
    prop_oneof![
        3 => cfg_among(&SK, cap, multiplier_nonneg).prop_flat_map(move |cfg| { let h2 = hi.max(3 * cfg.n() + 40); (Just(cfg), cancel_stream(lo, h2)) }).prop_map(|(cfg, v)| Case { cfg, scalar: true, xs: xs(&v), bars: vec![] }),
        1 => cfg_among(&BK, cap, multiplier_nonneg).prop_flat_map(move |cfg| { let h2 = hi.max(3 * cfg.n() + 40); (Just(cfg), cancel_stream(lo, h2), cancel_stream(lo, h2), cancel_stream(lo, h2)) }).prop_map(|(cfg, a, b, cc)| {
            let len = a.len().min(b.len()).min(cc.len());
            let mut bars: Vec<RawBar> = (0..len).map(|i| RawBar { o: a[i], h: a[i].max(b[i]), l: a[i].min(b[i]), c: cc[i], v: 1.0 }).collect();
            // every fourth stream opens with zero-range bars at one price (a width of exactly 0 times the multiplier)
            if len > 0 && (a[0].to_bits() >> 7) % 4 == 0 {
                let k = 1 + (cc[0].to_bits() >> 9) as usize % 6;
                let x = a[0];
                for b in bars.iter_mut().take(k) {
                    *b = RawBar { o: x, h: x, l: x, c: x, v: 1.0 };
                }
            }
            Case { cfg, scalar: false, xs: vec![], bars }
        }),
    ]
    .boxed()
}

pub fn run(g: &mut Global) {
    g.rule = "exhaustive: scalar sequences over {-1e12,-1,0,1e-6,1,1e12} for SD, MAD, the (MIN,MAX) pair, SMA, WMA, EMA, ATR, MACD, BB (multipliers 0 and 2), KC with periods 1..=5 and TRUE_RANGE; random: finite streams of any sign engineered for cancellation (blocks of +-huge values followed by flat stretches of small ones, multi-regime streams), bars with low <= high and close anywhere, periods to 512, multipliers >= 0 from {0,1e-9,1,2,3,1e3,1e6,1e39,1e300,f64::MAX} and U(0,10), every fourth bar stream opening with zero-range one-price bars; large_periods: windows of 1025 ... 4097 slots. Oracle: invariants after every input — SD, MAD, TR, ATR >= 0 and not NaN, Minimum <= Maximum (no slack); lower <= average <= upper, CE long <= window max(high) and short >= window min(low), histogram = line - signal, SMA/WMA inside the window hull, EMA inside the history hull (slack tau(t)*M as the property allows; the count holding with no slack is reported). Non-trivial = a drop in magnitude of >= 6 decades inside one window span, or multiplier 0 or >= 1e3; distinct by hash of (kind, parameters, path, inputs).".into();
    g.assumptions = vec!["multipliers are finite and >= 0".into(), "|x| <= 1e12".into()];
    let cfgs = enum_cfgs();
    let d = g.tier.pick(6usize, 9usize);
    let per = ipow(6, d);
    g.exhaustive(
        "enum",
        per * cfgs.len() as u64,
        &move |i| {
            let cfg = cfgs[(i / per) as usize].clone();
            let ds = digits(i % per, 6, d);
            Case { cfg, scalar: true, xs: ds.iter().map(|&j| X(ALPHA[j])).collect(), bars: vec![] }
        },
        &check,
    );
    g.random("random", g.tier.pick(400000, 3000000), &|| strategy(1, 300), &check);
    // the same relations after reset() on the same instance(s): resets at multiples of the period, next to them,
    // anywhere, and a second reset before the window refilled
    g.random("resets", g.tier.pick(100000, 300000), &reset_strategy, &check_resets);
    // identity events (tele.rs): at one or two steps the instance is replaced by its clone, by a used instance
    // (same or longer periods) that clone_from()s it, or by its serde round trip; nothing may change
    g.random("events", g.tier.pick(80000, 300000), &|| crate::tele::wrap(strategy(1, 300)), &|t: &crate::tele::TCase<Case>, ctx: &mut Ctx| crate::tele::check_wrapped(t, ctx, if t.case.scalar { t.case.xs.len() } else { t.case.bars.len() }, t.case.cfg.n(), check));
    if g.tier == Tier::Thorough {
        g.random("long", 800, &|| strategy(3000, 8000), &check);
    }
    // window-less period arguments at the top of the usize range (2^31, 2^32, 2^32+1, 2^33, 2^40, 2^53+1, 2^63,
    // MAX-1, MAX): valid configurations like any other — a period converted through a narrower integer type or
    // rounded on its way to the smoothing factor builds without complaint and computes something else
    const BP: [usize; 9] = [1 << 31, 1 << 32, (1 << 32) + 1, 1 << 33, 1 << 40, (1 << 53) + 1, usize::MAX / 2 + 1, usize::MAX - 1, usize::MAX];
    g.exhaustive(
        "boundary_periods",
        9 * 7,
        &|i| {
            let b = BP[(i % 9) as usize];
            let cfg = match i / 9 {
                0 => Cfg { kind: Kind::Ema, p: vec![b], m: X(0.0) },
                1 => Cfg { kind: Kind::Atr, p: vec![b], m: X(0.0) },
                2 => Cfg { kind: Kind::Kc, p: vec![b], m: X(2.0) },
                3 => Cfg { kind: Kind::Macd, p: vec![12, 26, b], m: X(0.0) },
                4 => Cfg { kind: Kind::Macd, p: vec![b, 26, 9], m: X(0.0) },
                5 => Cfg { kind: Kind::Ppo, p: vec![12, b, 9], m: X(0.0) },
                _ => Cfg { kind: Kind::Ppo, p: vec![12, 26, b], m: X(0.0) },
            };
            let vals: Vec<f64> = (0..60).map(|j| 100.0 + if j % 2 == 0 { 10.0 } else { -7.5 } + (j % 7) as f64 * 0.37).collect();
            if matches!(cfg.kind, Kind::Atr | Kind::Kc) && i % 2 == 1 {
                Case { cfg, scalar: false, xs: vec![], bars: vals.iter().map(|&x| RawBar { o: x, h: x + 2.0, l: x - 1.5, c: x + 0.5, v: 1.0 }).collect() }
            } else {
                Case { cfg, scalar: true, xs: xs(&vals), bars: vec![] }
            }
        },
        &check,
    );
    // windows beyond 1024 slots ("for every period"): block-wise loops and periodic rebuilds drop a remainder there
    let seedb = g.seed;
    const LP: [usize; 5] = [1025, 1500, 2049, 3000, 4097];
    const LK: [Kind; 9] = [Kind::Sma, Kind::Wma, Kind::Ema, Kind::Sd, Kind::Bb, Kind::Min, Kind::Kc, Kind::Ce, Kind::Mad];
    g.exhaustive(
        "large_periods",
        9 * 5 * 3,
        &move |i| {
            let kind = LK[(i % 9) as usize];
            let r = i / 9;
            let n = LP[(r % 5) as usize];
            let n = if kind == Kind::Mad { n.min(1500) } else { n };
            let regime = [0usize, 7, 3][(r / 5) as usize % 3];
            let mut s = seedb ^ (i + 19).wrapping_mul(0x9E3779B97F4A7C15);
            let noise: Vec<f64> = (0..3 * n + 60).map(|_| unit(&mut s)).collect();
            let vals = expand(Domain::AnySign, regime, [250.0, 1.0, 1e5][(i % 3) as usize], unit(&mut s), &noise);
            let cfg = Cfg { kind, p: vec![n], m: X([2.0, 0.0, 3.0][(i % 3) as usize]) };
            if kind == Kind::Ce || i % 4 == 3 {
                let bars = vals.iter().map(|&x| RawBar { o: x, h: x + 0.01 * x.abs(), l: x - 0.01 * x.abs(), c: x, v: 1.0 }).collect();
                Case { cfg, scalar: false, xs: vec![], bars }
            } else {
                Case { cfg, scalar: true, xs: xs(&vals), bars: vec![] }
            }
        },
        &check,
    );
    // the every-step sign invariant of SD / BB / MAD on single-instance streams beyond 2^16 inputs
    // (c13's stream generator; only the "never negative, never NaN" clause is judged here)
    let seed = g.seed;
    let wk = [(Kind::Sd, 20usize), (Kind::Sd, 3), (Kind::Bb, 14), (Kind::Bb, 5), (Kind::Mad, 7), (Kind::Sd, 8)];
    g.exhaustive(
        "long_sign",
        g.tier.pick(6 * 5, 6 * 5 * 4),
        &move |i| {
            let (kind, n) = wk[(i % 6) as usize];
            let regime = ((i / 6) % 5) as usize;
            let mut s = seed ^ (i + 11).wrapping_mul(0xA0761D6478BD642F);
            let sd = splitmix(&mut s);
            crate::props::c13::Case { kind, n, regime, base: X([1e-3, 0.1, 85.18, 1234.56, 64999.01, 1e6][(sd % 6) as usize]), seed: sd, len: 140_000, saw: 2 + (sd >> 9) as usize % (n + 2) }
        },
        &|c, ctx| crate::props::c13::check_mode(c, ctx, "C09", true, true),
    );
    // one life past 2^16 inputs in which every power-of-two input count 2^8 ... 2^16 falls inside an exactly flat
    // stretch (a periodic re-derivation of the second moment by the one-pass formula has a residue of either sign on
    // a flat window of an ordinary, not exactly representable price: sqrt of a negative number exactly there)
    g.exhaustive(
        "flat_at_pow2_counts",
        3 * 3 * 4,
        &move |i| {
            let kind = [Kind::Sd, Kind::Bb, Kind::Mad][(i % 3) as usize];
            let n = [5usize, 20, 50][((i / 3) % 3) as usize];
            let level = [1234.56f64, 99.99, 101.3, 1e9 + 0.37][(i / 9) as usize];
            let mut st = seed ^ (i + 401).wrapping_mul(0x9E3779B97F4A7C15);
            let len = 65_536 + 3 * n + 10;
            let mut vals: Vec<f64> = (0..len).map(|_| level + ((unit(&mut st) * 200.0).round() - 100.0) / 100.0).collect();
            for k in 8..=16u32 {
                let c = 1usize << k;
                let (a, b) = (c.saturating_sub(2 * n + 3), (c + n + 3).min(len));
                let flat = vals[a];
                for v in vals[a..b].iter_mut() {
                    *v = flat;
                }
            }
            Case { cfg: Cfg { kind, p: vec![n], m: X(2.0) }, scalar: true, xs: xs(&vals), bars: vec![] }
        },
        &check,
    );
    if g.tier == Tier::Thorough {
        g.fuzz_stage("ops_pred", Some(2), 600_000, "random", &|b| crate::fuzzdec::decode_c09(b), &check);
    }
}
