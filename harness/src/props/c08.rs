//! C08 — flat or zero-flow windows give finite, neutral outputs — never NaN or garbage.

use crate::adapter::{Ind, Kind, RawBar, ALL_KINDS};
use crate::fw::*;
use crate::gen::*;
use crate::hist::cfg_small;
use crate::refs::*;
use proptest::collection::vec;
use proptest::prelude::*;
use serde::{Deserialize, Serialize};

#[derive(Clone, Debug, Serialize, Deserialize)]
pub struct Case {
    pub cfg: Cfg,
    /// feed bar.c through Next<f64> where the kind has a scalar path
    pub scalar: bool,
    /// active prefix (valid bars); may be empty ("from the start of the stream")
    pub prefix: Vec<RawBar>,
    /// zero-volume stretch with moving prices (volume forced to 0) — degenerate for MFI/OBV only
    pub zv: Vec<RawBar>,
    /// flat stretch: `flat_len` bars with open = high = low = close = level, volume = vol
    pub level: X,
    pub vol: X,
    pub flat_len: usize,
    /// only when level == 0: bit j set => the j-th flat bar (mod 64) is at -0.0 instead of +0.0
    #[serde(default)]
    pub neg_zero_mask: u64,
    /// a long seed-expanded active life fed before `prefix`: (seed, length)
    #[serde(default)]
    pub gen_prefix: Option<(u64, usize)>,
    /// `reset()` is called between the earlier activity and the flat stretch: the stretch then is "at the start of
    /// a stream" on a used instance, and t, M count from there
    #[serde(default)]
    pub reset_before_flat: bool,
}

/// how many identical flat bars make the window of this kind degenerate
fn degenerate_len(k: Kind, cfg: &Cfg) -> usize {
    let n = cfg.n();
    match k {
        Kind::FastStoch | Kind::Cci | Kind::Mad | Kind::Sd | Kind::Bb | Kind::Sma | Kind::Wma | Kind::Min | Kind::Max => n,
        Kind::Tr | Kind::Obv => 2,
        Kind::SlowStoch => n,
        Kind::Macd | Kind::Ppo => cfg.p.iter().copied().max().unwrap_or(1) + 1,
        _ => n + 1,
    }
}

const SLACK: f64 = 1e-9;

pub fn check(c: &Case, ctx: &mut Ctx) -> Result<(), Failure> {
    let k = c.cfg.kind;
    let name = k.name();
    let p = c.cfg.params();
    let n = c.cfg.n();
    let m = p.m;
    let mut ind = Ind::build(k, &p).map_err(|_| Failure { signature: "C08:harness".into(), detail: "HARNESS build".into() })?;
    let wk = degenerate_len(k, &c.cfg);
    let flat = RawBar { o: c.level.0, h: c.level.0, l: c.level.0, c: c.level.0, v: c.vol.0 };
    let glen = c.gen_prefix.map(|g| g.1).unwrap_or(0);
    let mut gen = c.gen_prefix.map(|g| crate::props::c13::Gen::new(g.0, 0, c.level.0.max(1e-3), 5));
    let total = glen + c.prefix.len() + c.zv.len() + c.flat_len;
    let flat_start = glen + c.prefix.len() + c.zv.len();
    let mut t_base = 0usize;
    let mut big = 0.0f64;
    let mut run_equal = 0usize; // length of the current run of identical flat bars
    let mut zero_flow_run = 0usize; // consecutive moves without money flow
    let mut last: Option<RawBar> = None;
    let (mut flat_steps, mut zf_steps) = (0u64, 0u64);
    let scalar = c.scalar && k.scalar();
    for i in 0..total {
        let gi = i;
        let bar = if gi < glen {
            gen.as_mut().unwrap().bar()
        } else if gi - glen < c.prefix.len() {
            c.prefix[gi - glen]
        } else if gi - glen < c.prefix.len() + c.zv.len() {
            let i = gi - glen;
            let mut b = c.zv[i - c.prefix.len()];
            b.v = 0.0;
            b
        } else {
            let mut f = flat;
            if c.level.0 == 0.0 && (c.neg_zero_mask >> ((i - glen - c.prefix.len() - c.zv.len()) % 64)) & 1 == 1 {
                f.o = -0.0;
                f.h = -0.0;
                f.l = -0.0;
                f.c = -0.0;
            }
            f
        };
        if c.reset_before_flat && i > 0 && i == flat_start {
            ind.reset();
            t_base = i;
            big = 0.0;
            run_equal = 0;
            zero_flow_run = 0;
            last = None;
            ctx.label("reset_before_flat_stretch");
        }
        crate::tele::step(&mut ind, &c.cfg);
        // mixed use of both paths on one instance (tele.rs, events stage): this step of a bar-fed case goes through
        // next(close); it then stands for the one-price bar at the close
        let sc_step = !scalar && k.scalar() && crate::tele::scalar_here();
        let bar = if sc_step { RawBar { o: bar.c, h: bar.c, l: bar.c, c: bar.c, v: bar.v } } else { bar };
        let out = if scalar || sc_step { ind.next_scalar(bar.c) } else { ind.next_bar(&bar) };
        let t = i + 1 - t_base;
        big = big.max(bar.max_abs_price());
        let is_flat = bar.h == bar.l && bar.l == bar.c;
        // numeric equality: +0.0 and -0.0 are the same price
        let identical = last.map(|l| l.h == bar.h && l.l == bar.l && l.c == bar.c).unwrap_or(false);
        // scalar path: only the close matters
        let (is_flat, identical) = if scalar { (true, last.map(|l| l.c == bar.c).unwrap_or(false)) } else { (is_flat, identical) };
        run_equal = if is_flat { if identical { run_equal + 1 } else { 1 } } else { 0 };
        if last.is_some() {
            let no_flow = bar.v == 0.0 || identical;
            zero_flow_run = if no_flow { zero_flow_run + 1 } else { 0 };
        }
        last = Some(bar);
        let degenerate = run_equal >= wk.min(t);
        let tag = || format!("{} ({} path) step {} (t={}): window of {} identical flat inputs at level {:e} after {} active bars", c.cfg.tag(), if scalar { "scalar" } else { "bar" }, i, t, run_equal, bar.c, glen + c.prefix.len());
        if degenerate {
            flat_steps += 1;
            // every field finite
            if out.vals().iter().any(|v| !v.is_finite()) {
                ctx.fail(format!("C08:{}:flat_window:nonfinite", name), format!("{}: output {:?}", tag(), out.vals()))?;
                continue;
            }
            let v = out.x();
            let tol = tau(t);
            let bad: Option<(&str, String)> = match k {
                Kind::Rsi | Kind::SlowStoch | Kind::Mfi => {
                    if !(v >= -SLACK && v <= 100.0 + SLACK) {
                        Some(("out_of_range", format!("{:e} not in [0,100]", v)))
                    } else {
                        None
                    }
                }
                Kind::FastStoch => (v != 50.0).then(|| ("nonneutral_finite", format!("{:e}, neutral value is 50", v))),
                Kind::Cci => (v != 0.0).then(|| ("nonneutral_finite", format!("{:e}, neutral value is 0", v))),
                Kind::Roc => (v != 0.0).then(|| ("nonneutral_finite", format!("{:e}, neutral value is 0", v))),
                Kind::Tr => (v != 0.0).then(|| ("nonneutral_finite", format!("{:e}, neutral value is 0", v))),
                Kind::Er => (!(v >= -SLACK && v <= 1.0 + SLACK)).then(|| ("out_of_range", format!("{:e} not in [0,1]", v))),
                Kind::Mad => (!(v >= 0.0 && v <= tol * big)).then(|| ("nonneutral_finite", format!("{:e} exceeds tau(t)*M = {:e}", v, tol * big))),
                Kind::Sd => (!(v >= 0.0 && v <= tol.sqrt() * big)).then(|| ("nonneutral_finite", format!("{:e} exceeds sqrt(tau(t))*M = {:e}", v, tol.sqrt() * big))),
                Kind::Atr => (!(v >= 0.0)).then(|| ("out_of_range", format!("{:e} negative", v))),
                Kind::Bb => {
                    let lim = m.abs() * tol.sqrt() * big + 4.0 * ulp(out.v[0]);
                    let a = (out.v[1] - out.v[0]).abs();
                    let b = (out.v[0] - out.v[2]).abs();
                    (!(a <= lim && b <= lim)).then(|| ("nonneutral_finite", format!("bands {:?} do not collapse onto the average within |m|*sqrt(tau)*M = {:e}", out.vals(), lim)))
                }
                _ => None,
            };
            if let Some((sym, what)) = bad {
                ctx.fail(format!("C08:{}:flat_window:{}", name, sym), format!("{}: {}", tag(), what))?;
            }
        }
        // zero money flow in the whole MFI window (last min(t-1, n) moves)
        if matches!(k, Kind::Mfi | Kind::Obv) && t >= 2 && zero_flow_run >= (t - 1).min(n) && !degenerate {
            zf_steps += 1;
            let v = out.x();
            if !v.is_finite() {
                ctx.fail(format!("C08:{}:zero_flow:nonfinite", name), format!("{} step {} (t={}): no volume / money flow in the window, output {:e}", c.cfg.tag(), i, t, v))?;
            } else if k == Kind::Mfi && !(v >= -SLACK && v <= 100.0 + SLACK) {
                ctx.fail(format!("C08:{}:zero_flow:out_of_range", name), format!("{} step {} (t={}): no volume / money flow in the window, output {:e} not in [0,100]", c.cfg.tag(), i, t, v))?;
            }
        }
    }
    ctx.label(&format!("kind:{}", name));
    ctx.label_n("degenerate_flat_steps_checked", flat_steps);
    ctx.label_n("zero_flow_steps_checked", zf_steps);
    let mut fp = Fp::new("C08");
    c.cfg.fp(&mut fp);
    fp.u(c.scalar as u64);
    fp.u(c.prefix.len() as u64);
    for b in &c.prefix {
        fp.f(b.c);
        fp.f(b.h);
    }
    for b in &c.zv {
        fp.f(b.c);
    }
    fp.f(c.level.0);
    fp.u(c.flat_len as u64);
    if c.prefix.is_empty() && c.flat_len > 0 {
        ctx.label("flat_from_start");
    }
    if !c.zv.is_empty() {
        ctx.label("has_zero_volume_stretch");
    }
    if c.flat_len >= 600 {
        ctx.label("long_enough_for_ema_underflow");
    }
    if !c.prefix.is_empty() && (c.flat_len >= wk + 1 || (!c.zv.is_empty() && zf_steps > 0)) {
        ctx.nontrivial(fp);
        ctx.label("nontrivial");
    }
    Ok(())
}

const LEVELS: [f64; 6] = [0.1, 1.0, 85.18, 1e-3, 1e6, 123.456];
/// extra levels of the random stage: tiny units (normal and subnormal) and, for the indicators whose
/// formula does not divide by the price itself, the level zero with mixed zero signs
const XLEVELS: [f64; 5] = [1e-300, 3e-310, 2e-306, 1e15, 0.0];

fn fixed_prefix(class: usize, n: usize) -> Vec<RawBar> {
    let mk = |i: usize, scale: f64| {
        let mid = scale * (10.0 + ((i * 7) % 11) as f64 * 0.37);
        RawBar { o: mid, h: mid * 1.02, l: mid * 0.97, c: mid * (0.98 + 0.005 * ((i * 3) % 7) as f64), v: (100 + (i * 13) % 900) as f64 }
    };
    match class {
        0 => vec![],
        1 => vec![mk(0, 1.0)],
        2 => (0..n).map(|i| mk(i, 1.0)).collect(),
        3 => (0..3 * n + 5).map(|i| if i == n { mk(i, 1e6) } else { mk(i, 1.0) }).collect(),
        _ => (0..2 * n + 3).map(|i| mk(3 * n + 10 - i, 0.01)).collect(),
    }
}

fn strategy(thorough: bool) -> BoxedStrategy<Case> {
    let maxl = if thorough { 8000usize } else { 3000usize };
    any_kind()
        .prop_flat_map(move |k| {
            // n in {1,2,3} forced often: RSI(2)/RSI(3) averages reach exactly 0 after 677 / 1072 flat bars
            let per = prop_oneof![3 => 1usize..=3, 3 => 4usize..=8, 2 => period(600)];
            let np = k.n_periods();
            (vec(per, np..=np), multiplier_any()).prop_map(move |(p, m)| Cfg { kind: k, p, m: X(if k.has_mult() { m } else { 0.0 }) })
        })
        .prop_flat_map(move |cfg| {
            let n = cfg.n();
            let prefix = prop_oneof![
                2 => Just(vec![]),
                5 => bar_stream(false, 1, 3 * n + 20).prop_map(|s| s.bars),
                2 => bar_stream(true, 1, 3 * n + 20).prop_map(|s| s.bars),
            ];
            let zv = prop_oneof![3 => Just(vec![]), 1 => bar_stream(false, 1, 2 * n + 5).prop_map(|s| s.bars)];
            let zero_ok = !matches!(cfg.kind, Kind::Roc | Kind::Ppo);
            let level = prop_oneof![12 => (0usize..6).prop_map(|i| LEVELS[i]), 6 => (-3.0f64..6.0).prop_map(|e| 10f64.powf(e)), 3 => (0usize..5).prop_map(move |i| if XLEVELS[i] == 0.0 && !zero_ok { 1e-300 } else { XLEVELS[i] })];
            let flen = prop_oneof![
                4 => 0usize..=(n + 3),
                3 => (n + 1)..=(4 * n + 10),
                2 => (0.0f64..1.0).prop_map(move |u| ((maxl as f64).ln() * u).exp() as usize),
                1 => Just(700usize),
                1 => Just(1100usize),
            ];
            let vol = prop_oneof![Just(1.0), Just(1000.0), 0.001f64..1e6];
            (Just(cfg), any::<bool>(), prefix, zv, level, vol, flen, any::<u64>(), 0usize..12)
        })
        .prop_map(|(cfg, scalar, mut prefix, mut zv, level, vol, flat_len, neg_zero_mask, coincide)| {
            // the flat level already occurs (as a one-price bar) among the last few active bars, followed by at
            // least one different bar: shortcuts keyed to 'incoming value equals outgoing value' meet it early
            if coincide < 3 && prefix.len() >= 2 && zv.is_empty() && level != 0.0 {
                let n = cfg.n();
                let j = 1 + (neg_zero_mask as usize) % n.max(2).min(prefix.len() - 1).max(1);
                let k = prefix.len() - 1 - j.min(prefix.len() - 1);
                let vol0 = prefix[k].v;
                prefix[k] = RawBar { o: level, h: level, l: level, c: level, v: vol0 };
            }
            // an extreme price unit applies to the whole stream: the earlier activity is quoted in the same
            // unit (a flat stretch 300 orders of magnitude below the prefix would make e.g. the documented
            // PPO value itself exceed f64::MAX)
            if level != 0.0 && (level < 1e-200 || level >= 1e15) {
                let mx = prefix.iter().chain(zv.iter()).map(|b| b.h).fold(1.0f64, f64::max);
                // monotone map into [level/8, 8*level]: keeps low <= close <= high and stays positive
                let f = |x: f64| ((x / mx) * (8.0 * level)).max(level / 8.0);
                for b in prefix.iter_mut().chain(zv.iter_mut()) {
                    b.o = f(b.o);
                    b.h = f(b.h);
                    b.l = f(b.l);
                    b.c = f(b.c);
                }
            }
            Case { cfg, scalar, prefix, zv, level: X(level), vol: X(vol), flat_len, neg_zero_mask, gen_prefix: None, reset_before_flat: (neg_zero_mask >> 11) % 5 == 0 }
        })
        .boxed()
}

pub fn run(g: &mut Global) {
    g.rule = "grid (exhaustive over its index space): all 22 indicators x periods 1..=8 x 5 prefix classes (empty, one bar, n bars, 3n+5 bars with a 1e6x spike, descending small prices) x 6 flat levels (0.1, 1, 85.18, 1e-3, 1e6, 123.456) x flat stretch lengths {1..n+3, 700, 1100, 3000} x scalar/bar path; random: proptest (kind, periods with 1..=3 forced often, prefix of valid bars or empty, optional zero-volume stretch with moving prices, flat level, flat length up to 3000 / 8000). Oracle at every step at which the harness's own window is degenerate (last min(t, w) inputs identical flat bars; no flow in the MFI window): all fields finite, documented range, FAST_STOCH = 50, CCI = 0, ROC = 0, TRUE_RANGE = 0 exactly, MAD <= tau*M, SD <= sqrt(tau)*M, Bollinger bands within |m|*sqrt(tau)*M of the average. Non-trivial = non-empty active prefix followed by a flat stretch of >= w+1 bars or a zero-volume stretch; distinct by hash of (kind, parameters, path, prefix, level, length).".into();
    g.assumptions = vec![
        "flat level and prices are positive; the level zero (with mixed zero signs) is used for every indicator except ROC and PPO, whose documented formulas divide by the price itself".into(),
        "degenerate window lengths: n for FAST_STOCH/CCI/MAD/SD/BB, n+1 for ROC/ER/MFI/RSI and EMA-based indicators, 2 for TRUE_RANGE".into(),
        "range slack 1e-9 as in C07".into(),
    ];
    let stretch = |n: usize, j: usize| -> usize {
        if j < n + 3 {
            j + 1
        } else {
            [700, 1100, 3000][j - (n + 3)]
        }
    };
    // index space: kind(22) x n(8) x prefix(5) x level(6) x stretch(14: up to n+3=11 + 3, clipped) x path(2)
    const ST: u64 = 14;
    g.exhaustive(
        "grid",
        22 * 8 * 5 * 6 * ST * 2,
        &move |i| {
            let scalar = i % 2 == 0;
            let r = i / 2;
            let sj = (r % ST) as usize;
            let r = r / ST;
            let level = LEVELS[(r % 6) as usize];
            let r = r / 6;
            let pc = (r % 5) as usize;
            let r = r / 5;
            let n = (r % 8) as usize + 1;
            let kind = ALL_KINDS[(r / 8) as usize];
            let nst = n + 6;
            let flat_len = stretch(n, sj % nst);
            Case { cfg: cfg_small(kind, n), scalar, prefix: fixed_prefix(pc, n), zv: vec![], level: X(level), vol: X(250.0), flat_len, neg_zero_mask: 0, gen_prefix: None, reset_before_flat: false }
        },
        &check,
    );
    // the same grid with reset() between the activity and the flat stretch (three levels): whatever reset() leaves
    // in a slot, a cursor or a cached extreme meets a window that is flat from its first input
    g.exhaustive(
        "flat_after_reset",
        22 * 8 * 5 * 3 * ST * 2,
        &move |i| {
            let scalar = i % 2 == 0;
            let r = i / 2;
            let sj = (r % ST) as usize;
            let r = r / ST;
            let level = [LEVELS[0], LEVELS[2], LEVELS[4]][(r % 3) as usize];
            let r = r / 3;
            let pc = (r % 5) as usize;
            let r = r / 5;
            let n = (r % 8) as usize + 1;
            let kind = ALL_KINDS[(r / 8) as usize];
            let nst = n + 6;
            let flat_len = stretch(n, sj % nst);
            Case { cfg: cfg_small(kind, n), scalar, prefix: fixed_prefix(pc, n), zv: vec![], level: X(level), vol: X(250.0), flat_len, neg_zero_mask: 0, gen_prefix: None, reset_before_flat: true }
        },
        &check,
    );
    // level zero with every pattern of zero signs over the first 6 flat bars, after a short prefix
    g.exhaustive(
        "zero_level_signs",
        20 * 6 * 3 * 64,
        &|i| {
            let mask = i % 64;
            let r = i / 64;
            let pc = [1usize, 2, 3][(r % 3) as usize];
            let r = r / 3;
            let n = (r % 6) as usize + 1;
            let kinds: Vec<Kind> = ALL_KINDS.iter().copied().filter(|k| !matches!(k, Kind::Roc | Kind::Ppo)).collect();
            let kind = kinds[(r / 6) as usize % kinds.len()];
            // repeat the 6-bit pattern so that longer stretches stay mixed
            let m6 = mask | (mask << 6) | (mask << 12) | (mask << 18) | (mask << 24) | (mask << 30) | (mask << 36);
            Case { cfg: cfg_small(kind, n), scalar: i % 2 == 0, prefix: fixed_prefix(pc, n), zv: vec![], level: X(0.0), vol: X(250.0), flat_len: 2 * n + 6, neg_zero_mask: m6, gen_prefix: None, reset_before_flat: false }
        },
        &check,
    );
    // a flat stretch that begins after a long active life, placed so that the 2^16-th input of the
    // instance falls inside it at several offsets (occasional re-synchronisations fire there)
    let seed = g.seed;
    const LL: [f64; 8] = [0.1, 3.3, 85.18, 1234.56, 64999.01, 1.0, 0.7, 123.456];
    g.exhaustive(
        "flat_after_long_life",
        22 * 10 * 8 * 3,
        &move |i| {
            let off = [0usize, 1, 2][(i % 3) as usize];
            let r = i / 3;
            let level = LL[(r % 8) as usize];
            let r = r / 8;
            let n = (r % 10) as usize + 1;
            let kind = ALL_KINDS[(r / 10) as usize];
            // the flat stretch starts n + 1 + off inputs before the 65 536th input
            let glen = 65_536 - (n + 1 + 2 * off);
            let mut s = seed ^ (i + 5).wrapping_mul(0x9E3779B97F4A7C15);
            Case { cfg: cfg_small(kind, n), scalar: i % 2 == 0, prefix: vec![], zv: vec![], level: X(level), vol: X(100.0), flat_len: 3 * n + 8, neg_zero_mask: 0, gen_prefix: Some((splitmix(&mut s), glen)), reset_before_flat: false }
        },
        &check,
    );
    // a flat stretch after a long one-directional run (thousands of bars without a single move the other way,
    // pauses allowed): one of two averages of movement has decayed to nothing while the other has not
    g.exhaustive(
        "flat_after_monotone_run",
        22 * 4 * 2 * 2,
        &move |i| {
            let up = i % 2 == 0;
            let r = i / 2;
            let scalar = r % 2 == 0;
            let r = r / 2;
            let n = [2usize, 4, 8, 14][(r % 4) as usize];
            let kind = ALL_KINDS[(r / 4) as usize];
            let len = [900usize, 1800, 3600, 6000][(r % 4) as usize];
            let level = 250.0f64;
            let mut s = seed ^ (i + 9).wrapping_mul(0x9E3779B97F4A7C15);
            let mut x = if up { level / 3.0 } else { level * 3.0 };
            let f = 3f64.powf(1.0 / len as f64);
            let mut prefix: Vec<RawBar> = Vec::with_capacity(len + 1);
            for _ in 0..len {
                if unit(&mut s) > 0.1 {
                    x = if up { x * f } else { x / f };
                }
                prefix.push(RawBar { o: x, h: x * 1.001, l: x * 0.999, c: x, v: 100.0 });
            }
            let last = prefix.last().unwrap().c;
            Case { cfg: cfg_small(kind, n), scalar, prefix, zv: vec![], level: X(last), vol: X(100.0), flat_len: 300, neg_zero_mask: 0, gen_prefix: None, reset_before_flat: false }
        },
        &check,
    );
    let th = g.tier == Tier::Thorough;
    g.random("random", g.tier.pick(400000, 10000000), &move || strategy(th), &check);
    // identity events (tele.rs): at one or two steps the instance is replaced by its clone, by a used instance
    // (same or longer periods) that clone_from()s it, or by its serde round trip; nothing may change
    g.random("events", g.tier.pick(120000, 1000000), &move || crate::tele::wrap(strategy(th)), &|t: &crate::tele::TCase<Case>, ctx: &mut Ctx| crate::tele::check_wrapped(t, ctx, t.case.prefix.len() + t.case.zv.len() + t.case.flat_len, t.case.cfg.n(), check));
    if g.tier == Tier::Thorough {
        g.fuzz_stage("ops_pred", Some(1), 600_000, "random", &|b| crate::fuzzdec::decode_c08(b), &check);
    }
}
