//! C10 — feeding a bar equals feeding its documented price field; other fields are ignored.

use crate::adapter::*;
use crate::fw::*;
use crate::gen::*;
use crate::hist::*;
use crate::refs::ulp;
use proptest::collection::vec;
use proptest::prelude::*;
use serde::{Deserialize, Serialize};

#[derive(Clone, Debug, Serialize, Deserialize)]
pub struct Case {
    pub cfg: Cfg,
    /// bars whose five fields vary independently (or one-price bars / consistent bars)
    pub bars: Vec<RawBar>,
    /// unrelated values that replace the fields the indicator is not documented to read
    pub noise: Vec<RawBar>,
}

const REL: f64 = 1e-12;

fn bits_same(a: &Out, b: &Out) -> bool {
    a.n == b.n && a.vals().iter().zip(b.vals()).all(|(x, y)| x.to_bits() == y.to_bits() || (x.is_nan() && y.is_nan()))
}

pub fn check(c: &Case, ctx: &mut Ctx) -> Result<(), Failure> {
    let k = c.cfg.kind;
    let name = k.name();
    let p = c.cfg.params();
    let mk = || Ind::build(k, &p).map_err(|_| Failure { signature: "C10:harness".into(), detail: "HARNESS build".into() });
    let mut by_bar = mk()?; // RawBar through Next<&T>
    let mut by_field = mk()?; // documented field through Next<f64>
    let mut perturbed = mk()?; // bar with unread fields replaced
    let mut by_item = mk()?; // DataItem (while every bar so far was consistent)
    let mut mixed = mk()?; // bar path and scalar path used alternately on one instance
    let mut item_ok = true;
    let fields = k.fields();
    let close_only = fields == F_CLOSE && k.scalar();
    let one_price_kinds = matches!(k, Kind::FastStoch | Kind::SlowStoch | Kind::Tr | Kind::Atr | Kind::Kc);
    let mut all_one_price = true;
    let mut fp = Fp::new("C10");
    c.cfg.fp(&mut fp);
    let mut big = 0.0f64;
    let mut distinct_noise = true;
    let mut items_fed = 0u64;
    for (i, b) in c.bars.iter().enumerate() {
        fp.f(b.o);
        fp.f(b.h);
        fp.f(b.l);
        fp.f(b.c);
        fp.f(b.v);
        big = big.max(b.c.abs());
        if crate::tele::due_reset() {
            // reset() of all four twins at the same step
            by_bar.reset();
            by_field.reset();
            perturbed.reset();
            by_item.reset();
            mixed.reset();
            ctx.label("reset_of_all_twins");
        }
        crate::tele::step(&mut by_bar, &c.cfg);
        let ob = by_bar.next_bar(b);
        // 1. documented field through the scalar path
        let scalar_twin: Option<(f64, &str)> = if close_only {
            Some((b.c, "close"))
        } else if k == Kind::Min {
            Some((b.l, "low"))
        } else if k == Kind::Max {
            Some((b.h, "high"))
        } else {
            None
        };
        if let Some((x, which)) = scalar_twin {
            // the same instance fed through both paths in turn (about a quarter of the steps through the scalar
            // path, in runs): "feeding a bar equals feeding its field" from any state, not only on pure streams
            let h = (i as u64 ^ b.c.to_bits().rotate_left(17) ^ (c.bars.len() as u64) << 20).wrapping_mul(0x9E3779B97F4A7C15);
            let om = if (h >> 33) % 4 == 0 || (i / 7) % 5 == 4 { mixed.next_scalar(x) } else { mixed.next_bar(b) };
            if !same_out(&ob, &om, REL) {
                ctx.fail(
                    format!("C10:{}:mixed_paths", name),
                    format!("{} step {}: an instance fed bars only returns {:?}, one fed the same history partly as next(&bar), partly as next(bar.{}) returns {:?}", c.cfg.tag(), i, ob.vals(), which, om.vals()),
                )?;
            }
            let of = by_field.next_scalar(x);
            if !same_out(&ob, &of, REL) {
                ctx.fail(
                    format!("C10:{}:bar_vs_{}", name, which),
                    format!("{} step {}: next(&bar) = {:?} but next(bar.{}) = {:?}; bar [o,h,l,c,v] = {:?}", c.cfg.tag(), i, ob.vals(), which, of.vals(), [b.o, b.h, b.l, b.c, b.v]),
                )?;
            }
        }
        // 2. one-price bars equal the scalar path
        if !(b.o == b.c && b.h == b.c && b.l == b.c) {
            all_one_price = false;
        }
        if one_price_kinds && all_one_price {
            let of = by_field.next_scalar(b.c);
            let ok = if k == Kind::Kc {
                // "within rounding of (x+x+x)/3": every typical price is off by up to ~1.5 ulp of the price, and the two
                // exponential averages round independently at every step; both effects are summed with weights
                // alpha(1-alpha)^j, so the difference is bounded by a few ulps of the largest price so far times the
                // memory 1/alpha = (n+1)/2 of the average (thorough tier, KC(193): 17 ulps after 16 bars)
                let tol = (16.0 + 2.0 * (c.cfg.n() as f64 + 1.0)) * ulp(big) * p.m.abs().max(1.0);
                ob.vals().iter().zip(of.vals()).all(|(x, y)| (x.is_nan() && y.is_nan()) || x == y || (x - y).abs() <= tol)
            } else {
                same_out(&ob, &of, REL)
            };
            if !ok {
                ctx.fail(
                    format!("C10:{}:one_price_bar_vs_scalar", name),
                    format!("{} step {}: one-price bar at {:e} gives {:?}, scalar path {:?}", c.cfg.tag(), i, b.c, ob.vals(), of.vals()),
                )?;
            }
        }
        // 3. fields the indicator is not documented to read are replaced by unrelated values
        let nz = c.noise[i % c.noise.len().max(1)];
        let mut pb = *b;
        if fields & F_OPEN == 0 {
            pb.o = nz.o;
        }
        if fields & F_HIGH == 0 {
            pb.h = nz.h;
        }
        if fields & F_LOW == 0 {
            pb.l = nz.l;
        }
        if fields & F_CLOSE == 0 {
            pb.c = nz.c;
        }
        if fields & F_VOLUME == 0 {
            pb.v = nz.v;
        }
        for nv in [nz.o, nz.h, nz.l, nz.c, nz.v] {
            if nv == b.o || nv == b.h || nv == b.l || nv == b.c || nv == b.v {
                distinct_noise = false;
            }
        }
        let op = perturbed.next_bar(&pb);
        if !bits_same(&ob, &op) {
            ctx.fail(
                format!("C10:{}:undocumented_field_read", name),
                format!(
                    "{} step {}: output changed from {:?} to {:?} when only fields it is not documented to read changed: bar {:?} -> {:?}",
                    c.cfg.tag(), i, ob.vals(), op.vals(), [b.o, b.h, b.l, b.c, b.v], [pb.o, pb.h, pb.l, pb.c, pb.v]
                ),
            )?;
        }
        // 4. DataItem behaves like any other implementor carrying the same numbers
        #[cfg(feature = "serde")]
        let item_of = |b: &RawBar| -> Option<ta::DataItem> {
            // with serde a DataItem can carry *any* five numbers (restored from a checkpoint), not only
            // the consistent tuples the builder accepts
            b.to_data_item().or_else(|| bincode::serialize(&[b.o, b.h, b.l, b.c, b.v]).ok().and_then(|bytes| bincode::deserialize::<ta::DataItem>(&bytes).ok()))
        };
        #[cfg(not(feature = "serde"))]
        let item_of = |b: &RawBar| -> Option<ta::DataItem> { b.to_data_item() };
        if item_ok {
            match item_of(b) {
                Some(item) => {
                    use ta::{Close, High, Low, Open, Volume};
                    if item.open().to_bits() != b.o.to_bits() || item.high().to_bits() != b.h.to_bits() || item.low().to_bits() != b.l.to_bits() || item.close().to_bits() != b.c.to_bits() || item.volume().to_bits() != b.v.to_bits() {
                        ctx.fail("C10:DataItem:getter_mismatch".into(), format!("DataItem built from {:?} returns open {:e} high {:e} low {:e} close {:e} volume {:e}", b, item.open(), item.high(), item.low(), item.close(), item.volume()))?;
                    }
                    let oi = by_item.next_bar(&item);
                    items_fed += 1;
                    if !bits_same(&ob, &oi) {
                        ctx.fail(
                            format!("C10:{}:dataitem_differs", name),
                            format!("{} step {}: DataItem gives {:?}, another implementor with the same numbers {:?}; bar {:?}", c.cfg.tag(), i, oi.vals(), ob.vals(), [b.o, b.h, b.l, b.c, b.v]),
                        )?;
                    }
                }
                None => item_ok = false,
            }
        }
    }
    ctx.label(&format!("kind:{}", name));
    ctx.label_n("dataitem_steps", items_fed);
    if all_one_price && !c.bars.is_empty() {
        ctx.label("one_price_case");
    }
    if distinct_noise && c.bars.len() >= flush_len(&c.cfg) + 1 {
        ctx.nontrivial(fp);
        ctx.label("nontrivial");
    }
    Ok(())
}

fn field() -> BoxedStrategy<f64> {
    prop_oneof![
        1 => (0usize..3).prop_map(|i| [3e306, 1.5e307, -8e306][i]),
        1 => (0usize..4).prop_map(|i| [3e-310, 5e-324, -3e-310, 9.9e-311][i]),
        6 => 0.5f64..500.0,
        2 => -100.0f64..100.0,
        1 => (-6.0f64..9.0).prop_map(|e| 10f64.powf(e)),
        1 => (0usize..6).prop_map(|i| [0.0, 1.0, -1.0, 1e12, -1e12, 1e-9][i]),
    ]
    .boxed()
}
/// few distinct values, long runs: equal neighbours are the rule, not the exception
fn tie_field() -> BoxedStrategy<f64> {
    prop_oneof![3 => (0usize..3).prop_map(|i| [10.0, 10.5, 9.75][i]), 1 => Just(10.0)].boxed()
}
fn noise_field() -> BoxedStrategy<f64> {
    prop_oneof![
        4 => 1000.0f64..2000.0,
        2 => -5000.0f64..-1000.0,
        1 => Just(1e300),
        1 => Just(-1e300),
        1 => Just(7.7e-310),
    ]
    .boxed()
}

fn strategy(maxlen: usize) -> BoxedStrategy<Case> {
    any_kind()
        .prop_flat_map(|k| cfg_for(k, 300, multiplier_any()))
        .prop_flat_map(move |cfg| {
            let n = flush_len(&cfg);
            let lenr = 1..=(3 * n + 10).min(maxlen);
            let bars = prop_oneof![
                4 => vec(raw_bar(field), lenr.clone()),
                3 => vec(valid_bar(), lenr.clone()),
                1 => bar_stream(false, 1, (3 * n + 10).min(maxlen)).prop_map(|s| s.bars),
                2 => vec(field(), lenr.clone()).prop_map(|v| v.into_iter().map(|x| RawBar { o: x, h: x, l: x, c: x, v: x.abs() }).collect()),
                // one-price bars on two or three neighbouring doubles (a window spanning exactly one ulp)
                1 => (vec(0u8..3, lenr.clone()), 0.5f64..500.0).prop_map(|(v, x0)| v.into_iter().map(|j| {
                    let x = f64::from_bits(x0.to_bits() + (j % if x0 > 250.0 { 3 } else { 2 }) as u64);
                    RawBar { o: x, h: x, l: x, c: x, v: 5.0 }
                }).collect()),
                // documented field on a coarse grid (exact ties between neighbours, plateaus), other fields free
                3 => vec((tie_field(), raw_bar(field)), lenr).prop_map(move |v| v.into_iter().map(|(x, mut b)| {
                    b.c = x;
                    b.l = x - 1.0;
                    b.h = x + 2.0;
                    b
                }).collect()),
            ];
            (Just(cfg), bars, vec(raw_bar(noise_field), 1..=8))
        })
        .prop_map(|(cfg, bars, noise)| Case { cfg, bars, noise })
        // the whole stream in another sign or unit (a level below zero for its whole length: yields, spreads)
        .prop_flat_map(|c| (Just(c), prop_oneof![8 => Just(1.0f64), 2 => Just(-1.0), 1 => Just(-0.01), 1 => Just(1e-3)]))
        .prop_map(|(mut c, unit)| {
            if unit != 1.0 {
                for b in c.bars.iter_mut() {
                    b.o *= unit;
                    b.h *= unit;
                    b.l *= unit;
                    b.c *= unit;
                }
            }
            c
        })
        .boxed()
}

pub fn run(g: &mut Global) {
    // (the compile-time instantiation on minimal-trait bar types is behind the feature `trait_probe`, off by default)
    #[cfg(feature = "trait_probe")]
    let _ = minimal_trait_instantiation();
    g.rule = "random: proptest (kind among all 22, periods to 300, bars with five independently drawn finite fields, or consistent bars, or one-price bars) plus unrelated noise values. Oracle: (1) next(&bar) = next(bar.close) for the close-only indicators, next(bar.low) for MIN, next(bar.high) for MAX, within 1e-12 relative; (2) one-price bars = scalar path for FAST_STOCH, SLOW_STOCH, TRUE_RANGE, ATR, and KC within 16 ulp of the price scale; (3) replacing every field the indicator is not documented to read (open always; volume except MFI/OBV; high/low for close-only ones) by unrelated values incl. +-1e300 leaves every output bit-identical; (4) ta::DataItem and the harness's own implementor carrying the same numbers give bit-identical outputs and DataItem's getters return the numbers it was built from. Non-trivial = noise values differ from every field of every bar and the stream is longer than the window; distinct by hash of (kind, parameters, bars).".into();
    g.assumptions = vec!["documented fields per indicator are those listed in the property (close; low for MIN; high for MAX; high/low/close for the bar indicators; + volume for MFI, close+volume for OBV)".into()];
    g.random("random", g.tier.pick(300000, 8000000), &|| strategy(1000), &check);
    // resets of all twins at the same step (multiples of the period, during warm-up, anywhere) and identity
    // events (tele.rs) on the bar-fed twin: the bar path and the scalar path must stay together through them
    g.random("events", g.tier.pick(120000, 1000000), &|| crate::tele::wrap_resets(strategy(400)), &|t: &crate::tele::TCase<Case>, ctx: &mut Ctx| crate::tele::check_wrapped(t, ctx, t.case.bars.len(), t.case.cfg.n(), check));
    // long flat runs after a short active prefix: the bar path and the scalar path must still agree
    // when exponential averages decay to zero (periods 1..=3 get there within ~1100 bars)
    g.exhaustive(
        "flat_runs",
        22 * 3 * 4,
        &|i| {
            let kind = ALL_KINDS[(i / 12) as usize];
            let n = ((i / 4) % 3) as usize + 1;
            let variant = (i % 4) as usize;
            let level = [10.0, 0.1, 85.18, 1e6][variant];
            let mut bars: Vec<RawBar> = (0..variant * 2).map(|j| RawBar { o: 3.0, h: level * 1.5 + j as f64, l: level * 0.5, c: level * (1.0 + 0.1 * j as f64), v: 7.0 }).collect();
            bars.extend((0..1300).map(|_| RawBar { o: level * 0.9, h: level * 1.25, l: level * 0.5, c: level, v: 3.0 }));
            Case { cfg: cfg_small(kind, n), bars, noise: vec![RawBar { o: 1234.5, h: -77.0, l: 5e5, c: 0.001, v: 1e300 }] }
        },
        &check,
    );
}
