//! Reference models: from-scratch double-double evaluation of the documented formulas over the
//! harness's own copy of the history. Nothing here reads implementation state.

use crate::adapter::RawBar;
use crate::dd::{dd_sum, DD};

/// τ(t) = 1e-12 + 1e-15·t^1.5
#[inline]
pub fn tau(t: usize) -> f64 {
    let t = t as f64;
    1e-12 + 1e-15 * t * t.sqrt()
}

pub fn ulp(x: f64) -> f64 {
    let x = x.abs();
    if !x.is_finite() {
        return f64::NAN;
    }
    if x < f64::MIN_POSITIVE {
        return 5e-324;
    }
    f64::from_bits(x.to_bits() + 1) - x
}

/// |a - r| where r is a DD reference
#[inline]
pub fn err(a: f64, r: DD) -> f64 {
    r.sub_f(a).abs().to_f64()
}

// ---- window statistics (w is oldest → newest) ------------------------------------------------------

pub fn mean(w: &[f64]) -> DD {
    dd_sum(w).div_f(w.len() as f64)
}

pub fn wma(w: &[f64]) -> DD {
    let k = w.len() as f64;
    let mut s = DD::ZERO;
    for (i, &x) in w.iter().enumerate() {
        s = s.add(DD::prod(x, (i + 1) as f64));
    }
    s.div_f(k * (k + 1.0) / 2.0)
}

/// population variance
pub fn var_pop(w: &[f64]) -> DD {
    let m = mean(w);
    let mut s = DD::ZERO;
    for &x in w {
        let d = DD::from(x).sub(m);
        s = s.add(d.mul(d));
    }
    s.div_f(w.len() as f64)
}

pub fn mad(w: &[f64]) -> DD {
    let m = mean(w);
    let mut s = DD::ZERO;
    for &x in w {
        s = s.add(DD::from(x).sub(m).abs());
    }
    s.div_f(w.len() as f64)
}

pub fn wmin(w: &[f64]) -> f64 {
    w.iter().cloned().fold(f64::INFINITY, f64::min)
}
pub fn wmax(w: &[f64]) -> f64 {
    w.iter().cloned().fold(f64::NEG_INFINITY, f64::max)
}

/// interval of standard deviations consistent with |sd² − var| <= tol_var
pub fn sd_interval(var: DD, tol_var: f64) -> (f64, f64) {
    let lo = var.sub_f(tol_var);
    let hi = var.add_f(tol_var);
    let lo = if lo.hi <= 0.0 { 0.0 } else { lo.sqrt().to_f64() };
    (lo, hi.sqrt().to_f64())
}

// ---- EMA ----------------------------------------------------------------------------------------------

#[derive(Clone, Debug)]
pub struct EmaRef {
    pub alpha: DD,
    pub one_minus: DD,
    pub cur: DD,
    pub fresh: bool,
}
impl EmaRef {
    pub fn new(n: usize) -> EmaRef {
        // α = 2/(n+1) exactly (n+1 computed without overflow in f64/DD)
        let np1 = DD::from(n as f64).add_f(1.0);
        let alpha = DD::from(2.0).div(np1);
        EmaRef { alpha, one_minus: DD::ONE.sub(alpha), cur: DD::ZERO, fresh: true }
    }
    pub fn next(&mut self, x: DD) -> DD {
        if self.fresh {
            self.fresh = false;
            self.cur = x;
        } else {
            self.cur = self.alpha.mul(x).add(self.one_minus.mul(self.cur));
        }
        self.cur
    }
    pub fn reset(&mut self) {
        self.fresh = true;
        self.cur = DD::ZERO;
    }
}

/// closed form: EMA_t = Σ_{j=0}^{t-2} α(1−α)^j x_{t−j} + (1−α)^{t−1} x_1   (xs non-empty)
pub fn ema_closed_form(n: usize, xs: &[DD]) -> DD {
    let e = EmaRef::new(n);
    let t = xs.len();
    let mut pw = DD::ONE; // (1-α)^j
    let mut s = DD::ZERO;
    for j in 0..t.saturating_sub(1) {
        s = s.add(e.alpha.mul(pw).mul(xs[t - 1 - j]));
        pw = pw.mul(e.one_minus);
        if pw.hi == 0.0 {
            return s;
        }
    }
    s.add(pw.mul(xs[0]))
}

// ---- True range ---------------------------------------------------------------------------------------------

#[derive(Clone, Debug, Default)]
pub struct TrRef {
    pub prev_close: Option<f64>,
}
impl TrRef {
    pub fn next_bar(&mut self, b: &RawBar) -> DD {
        let hl = DD::sum2(b.h, -b.l);
        let r = match self.prev_close {
            None => hl,
            Some(pc) => {
                let d2 = DD::sum2(b.h, -pc).abs();
                let d3 = DD::sum2(b.l, -pc).abs();
                hl.max(d2).max(d3)
            }
        };
        self.prev_close = Some(b.c);
        r
    }
    pub fn next_scalar(&mut self, x: f64) -> DD {
        let r = match self.prev_close {
            None => DD::ZERO,
            Some(pc) => DD::sum2(x, -pc).abs(),
        };
        self.prev_close = Some(x);
        r
    }
    /// index of the branch that was the maximum (0: h-l, 1: |h-pc|, 2: |l-pc|, 3: first bar)
    pub fn branch(prev_close: Option<f64>, b: &RawBar) -> usize {
        match prev_close {
            None => 3,
            Some(pc) => {
                let a = b.h - b.l;
                let d2 = (b.h - pc).abs();
                let d3 = (b.l - pc).abs();
                if a >= d2 && a >= d3 {
                    0
                } else if d2 >= d3 {
                    1
                } else {
                    2
                }
            }
        }
    }
}

/// typical price (h+l+c)/3 in DD
pub fn tp_dd(b: &RawBar) -> DD {
    DD::sum2(b.c, b.h).add_f(b.l).div_f(3.0)
}
