//! Reference models: from-scratch double-double evaluation of the documented formulas over the
//! harness's own copy of the history. Nothing here reads implementation state.

use crate::adapter::RawBar;
use crate::dd::{dd_sum, DD};

/// τ(t) = 1e-12 + 1e-15·t^1.5
#[inline]
pub fn tau(t: usize) -> f64 {
    let t = t as f64;
    1e-12 + 1e-15 * t * t.sqrt()
}

/// absolute floor added to every tau*M tolerance: rounding granularity of the subnormal range
/// (8 units of 5e-324 per element that entered the computation). It matters only when M itself is
/// subnormal, where tau*M underflows to zero and would demand exact real arithmetic.
pub fn tol_floor(k: usize) -> f64 {
    4e-323 * (k as f64 + 2.0)
}

pub fn ulp(x: f64) -> f64 {
    let x = x.abs();
    if !x.is_finite() {
        return f64::NAN;
    }
    if x < f64::MIN_POSITIVE {
        return 5e-324;
    }
    f64::from_bits(x.to_bits() + 1) - x
}

/// |a - r| where r is a DD reference
#[inline]
pub fn err(a: f64, r: DD) -> f64 {
    r.sub_f(a).abs().to_f64()
}

// ---- window statistics (w is oldest → newest) ------------------------------------------------------

pub fn mean(w: &[f64]) -> DD {
    dd_sum(w).div_f(w.len() as f64)
}

pub fn wma(w: &[f64]) -> DD {
    let k = w.len() as f64;
    let mut s = DD::ZERO;
    for (i, &x) in w.iter().enumerate() {
        s = s.add(DD::prod(x, (i + 1) as f64));
    }
    s.div_f(k * (k + 1.0) / 2.0)
}

/// population variance
pub fn var_pop(w: &[f64]) -> DD {
    let m = mean(w);
    let mut s = DD::ZERO;
    for &x in w {
        let d = DD::from(x).sub(m);
        s = s.add(d.mul(d));
    }
    s.div_f(w.len() as f64)
}

pub fn mad(w: &[f64]) -> DD {
    let m = mean(w);
    let mut s = DD::ZERO;
    for &x in w {
        s = s.add(DD::from(x).sub(m).abs());
    }
    s.div_f(w.len() as f64)
}

pub fn wmin(w: &[f64]) -> f64 {
    w.iter().cloned().fold(f64::INFINITY, f64::min)
}
pub fn wmax(w: &[f64]) -> f64 {
    w.iter().cloned().fold(f64::NEG_INFINITY, f64::max)
}

/// interval of standard deviations consistent with |sd² − var| <= tol_var
pub fn sd_interval(var: DD, tol_var: f64) -> (f64, f64) {
    let lo = var.sub_f(tol_var);
    let hi = var.add_f(tol_var);
    let lo = if lo.hi <= 0.0 { 0.0 } else { lo.sqrt().to_f64() };
    (lo, hi.sqrt().to_f64())
}

// ---- EMA ----------------------------------------------------------------------------------------------

#[derive(Clone, Debug)]
pub struct EmaRef {
    pub alpha: DD,
    pub one_minus: DD,
    pub cur: DD,
    pub fresh: bool,
}
impl EmaRef {
    pub fn new(n: usize) -> EmaRef {
        // α = 2/(n+1) exactly (n+1 computed without overflow in f64/DD)
        let np1 = DD::from(n as f64).add_f(1.0);
        let alpha = DD::from(2.0).div(np1);
        EmaRef { alpha, one_minus: DD::ONE.sub(alpha), cur: DD::ZERO, fresh: true }
    }
    pub fn next(&mut self, x: DD) -> DD {
        if self.fresh {
            self.fresh = false;
            self.cur = x;
        } else {
            self.cur = self.alpha.mul(x).add(self.one_minus.mul(self.cur));
        }
        self.cur
    }
    pub fn reset(&mut self) {
        self.fresh = true;
        self.cur = DD::ZERO;
    }
}

/// closed form: EMA_t = Σ_{j=0}^{t-2} α(1−α)^j x_{t−j} + (1−α)^{t−1} x_1   (xs non-empty)
pub fn ema_closed_form(n: usize, xs: &[DD]) -> DD {
    let e = EmaRef::new(n);
    let t = xs.len();
    let mut pw = DD::ONE; // (1-α)^j
    let mut s = DD::ZERO;
    for j in 0..t.saturating_sub(1) {
        s = s.add(e.alpha.mul(pw).mul(xs[t - 1 - j]));
        pw = pw.mul(e.one_minus);
        if pw.hi == 0.0 {
            return s;
        }
    }
    s.add(pw.mul(xs[0]))
}

// ---- True range ---------------------------------------------------------------------------------------------

#[derive(Clone, Debug, Default)]
pub struct TrRef {
    pub prev_close: Option<f64>,
}
impl TrRef {
    pub fn next_bar(&mut self, b: &RawBar) -> DD {
        let hl = DD::sum2(b.h, -b.l);
        let r = match self.prev_close {
            None => hl,
            Some(pc) => {
                let d2 = DD::sum2(b.h, -pc).abs();
                let d3 = DD::sum2(b.l, -pc).abs();
                hl.max(d2).max(d3)
            }
        };
        self.prev_close = Some(b.c);
        r
    }
    pub fn next_scalar(&mut self, x: f64) -> DD {
        let r = match self.prev_close {
            None => DD::ZERO,
            Some(pc) => DD::sum2(x, -pc).abs(),
        };
        self.prev_close = Some(x);
        r
    }
    /// index of the branch that was the maximum (0: h-l, 1: |h-pc|, 2: |l-pc|, 3: first bar)
    pub fn branch(prev_close: Option<f64>, b: &RawBar) -> usize {
        match prev_close {
            None => 3,
            Some(pc) => {
                let a = b.h - b.l;
                let d2 = (b.h - pc).abs();
                let d3 = (b.l - pc).abs();
                if a >= d2 && a >= d3 {
                    0
                } else if d2 >= d3 {
                    1
                } else {
                    2
                }
            }
        }
    }
}

/// typical price (h+l+c)/3 in DD
pub fn tp_dd(b: &RawBar) -> DD {
    DD::sum2(b.c, b.h).add_f(b.l).div_f(3.0)
}

// ---- oscillators (C03 and users) -------------------------------------------------------------------------------

/// A reference value with its condition number; `None` = degenerate (zero reference denominator).
#[derive(Clone, Copy, Debug)]
pub struct Cond {
    pub val: DD,
    pub c: f64,
}

#[derive(Clone, Debug)]
pub struct RsiRef {
    pub up: EmaRef,
    pub down: EmaRef,
    pub prev: f64,
    pub fresh: bool,
    pub big: f64,
}
impl RsiRef {
    pub fn new(n: usize) -> RsiRef {
        RsiRef { up: EmaRef::new(n), down: EmaRef::new(n), prev: 0.0, fresh: true, big: 0.1 }
    }
    /// returns None when U + D == 0 (degenerate, C08)
    pub fn next(&mut self, x: f64) -> Option<Cond> {
        let (u, d) = if self.fresh {
            self.fresh = false;
            (DD::from(0.1), DD::from(0.1))
        } else if x > self.prev {
            (DD::sum2(x, -self.prev), DD::ZERO)
        } else {
            (DD::ZERO, DD::sum2(self.prev, -x))
        };
        self.prev = x;
        self.big = self.big.max(u.to_f64()).max(d.to_f64());
        let ue = self.up.next(u);
        let de = self.down.next(d);
        let den = ue.add(de);
        if !(den.hi > 0.0) {
            return None;
        }
        Some(Cond { val: ue.div(den).mul_f(100.0), c: self.big / den.to_f64() })
    }
}

/// FastStochastic on explicit windows (highs, lows over the last min(t,n) inputs) and the current close.
/// Returns (value, c); flat window → (50, 0) exactly as documented.
pub fn fast_stoch_ref(highs: &[f64], lows: &[f64], close: f64) -> Cond {
    let hi = wmax(highs);
    let lo = wmin(lows);
    if hi == lo {
        return Cond { val: DD::from(50.0), c: 0.0 };
    }
    let den = DD::sum2(hi, -lo);
    let num = DD::sum2(close, -lo);
    let big = hi.abs().max(lo.abs()).max(close.abs());
    Cond { val: num.div(den).mul_f(100.0), c: big / den.to_f64().abs() }
}

/// RateOfChange over history since reset (hist non-empty)
pub fn roc_ref(hist: &[f64], n: usize) -> Option<Cond> {
    let t = hist.len();
    let x = hist[t - 1];
    let prev = if t > n { hist[t - 1 - n] } else { hist[0] };
    if prev == 0.0 {
        return None;
    }
    let val = DD::sum2(x, -prev).div_f(prev).mul_f(100.0);
    Some(Cond { val, c: x.abs().max(prev.abs()) / prev.abs() })
}

/// EfficiencyRatio over history since reset; None if the path length is zero (degenerate)
pub fn er_ref(hist: &[f64], n: usize) -> Option<Cond> {
    let t = hist.len();
    if t == 1 {
        // documented: first output 1 (|0 - x|/|0 - x| for a positive price)
        if hist[0] == 0.0 {
            return None;
        }
        return Some(Cond { val: DD::ONE, c: 1.0 });
    }
    let k = (t - 1).min(n);
    let first = hist[t - 1 - k];
    let mut vol = DD::ZERO;
    let mut big = 0.0f64;
    for j in (t - k)..t {
        vol = vol.add(DD::sum2(hist[j], -hist[j - 1]).abs());
        big = big.max(hist[j].abs()).max(hist[j - 1].abs());
    }
    if vol.is_zero() {
        return None;
    }
    let num = DD::sum2(hist[t - 1], -first).abs();
    Some(Cond { val: num.div(vol), c: big / vol.to_f64() })
}

/// CCI over the typical prices of the last min(t,n) bars; None if MAD is zero.
/// `big_since_reset`: largest |typical price| fed since construction/reset — every one of them
/// entered the running sum behind the SMA term, so it is the magnitude the condition number uses.
pub fn cci_ref(bars: &[RawBar], n: usize, big_since_reset: f64) -> Option<Cond> {
    let t = bars.len();
    let w = &bars[t - t.min(n)..];
    let tps: Vec<DD> = w.iter().map(tp_dd).collect();
    let k = tps.len() as f64;
    let mut mean = DD::ZERO;
    let mut big = 0.0f64;
    for tp in &tps {
        // accumulate tp/k, not tp: the window sum itself may exceed f64::MAX for huge price units
        mean = mean.add(tp.div_f(k));
        big = big.max(tp.to_f64().abs());
    }
    let mut mad = DD::ZERO;
    for tp in &tps {
        mad = mad.add(tp.sub(mean).abs().div_f(k));
    }
    if mad.is_zero() || !(mad.hi > 0.0) {
        return None;
    }
    let num = tps[tps.len() - 1].sub(mean);
    Some(Cond { val: num.div(mad.mul_f(0.015)), c: big.max(big_since_reset) / mad.to_f64() })
}

/// Is the comparison of the typical prices of bars a and b unambiguous under any evaluation order?
/// `sep` = required relative separation when they differ.
pub fn tp_pair_unambiguous(a: &RawBar, b: &RawBar, sep: f64) -> bool {
    tp_pair_unambiguous_ex(a, b, sep, true)
}
/// `allow_exact_sums = false`: equal typical prices from *different* bars count as ambiguous
/// (needed when the stream is also evaluated after a non-dyadic rescaling, which destroys exactness)
pub fn tp_pair_unambiguous_ex(a: &RawBar, b: &RawBar, sep: f64, allow_exact_sums: bool) -> bool {
    if a.h.to_bits() == b.h.to_bits() && a.l.to_bits() == b.l.to_bits() && a.c.to_bits() == b.c.to_bits() {
        return true;
    }
    let ta = tp_dd(a);
    let tb = tp_dd(b);
    let d = ta.sub(tb).abs().to_f64();
    let scale = ta.to_f64().abs().max(tb.to_f64().abs());
    if d >= sep * scale && d > 0.0 {
        return true;
    }
    if !allow_exact_sums {
        return false;
    }
    // equal or nearly equal exact typical prices from different bars: unambiguous only if every
    // three-term sum is exact in every order (then all orders give identical f64 sums)
    fn exact3(b: &RawBar) -> bool {
        let e = |x: f64, y: f64, z: f64| {
            let (s, r) = crate::dd::two_sum(x, y);
            let (_, r2) = crate::dd::two_sum(s, z);
            r == 0.0 && r2 == 0.0
        };
        e(b.c, b.h, b.l) && e(b.c, b.l, b.h) && e(b.h, b.l, b.c)
    }
    exact3(a) && exact3(b) && (d == 0.0 || d >= 4.0 * ulp(scale))
}

#[derive(Clone, Copy, Debug)]
pub struct MfiOut {
    pub pmf: DD,
    pub nmf: DD,
    pub tainted: bool,
    pub max_flow_in_window: f64,
}
/// May the implementation have booked a money flow for the move a -> b? Only bit-identical (high, low, close)
/// triples are certain to give it bit-identical typical prices, whatever order it sums them in; any other pair —
/// also one whose exact typical prices are equal — may be a move for it, and the flow then passes through its
/// running totals (and leaves its rounding residue there) although the reference sees a tie. The "largest
/// single-bar flow since reset" of the MFI condition number therefore counts every such bar.
pub fn may_flow(a: &RawBar, b: &RawBar) -> bool {
    !(a.h.to_bits() == b.h.to_bits() && a.l.to_bits() == b.l.to_bits() && a.c.to_bits() == b.c.to_bits())
}

/// MoneyFlowIndex flows over the last min(t-1, n) typical-price moves of `bars` (t = bars.len() >= 2)
pub fn mfi_ref(bars: &[RawBar], n: usize, sep: f64) -> MfiOut {
    mfi_ref_ex(bars, n, sep, true)
}
pub fn mfi_ref_ex(bars: &[RawBar], n: usize, sep: f64, allow_exact_sums: bool) -> MfiOut {
    let t = bars.len();
    let k = (t - 1).min(n);
    let mut pmf = DD::ZERO;
    let mut nmf = DD::ZERO;
    let mut tainted = false;
    let mut mx = 0.0f64;
    for j in (t - k)..t {
        let a = &bars[j - 1];
        let b = &bars[j];
        if !tp_pair_unambiguous_ex(a, b, sep, allow_exact_sums) {
            tainted = true;
        }
        let ta = tp_dd(a);
        let tb = tp_dd(b);
        let flow = tb.mul_f(b.v);
        if ta.lt(tb) {
            pmf = pmf.add(flow);
            mx = mx.max(flow.to_f64().abs());
        } else if tb.lt(ta) {
            nmf = nmf.add(flow);
            mx = mx.max(flow.to_f64().abs());
        }
    }
    MfiOut { pmf, nmf, tainted, max_flow_in_window: mx }
}

#[cfg(test)]
mod tests {
    use super::*;
    #[test]
    fn window_stats_on_known_values() {
        let w = [2.0, 4.0, 4.0, 4.0, 5.0, 5.0, 7.0, 9.0];
        assert_eq!(mean(&w).to_f64(), 5.0);
        assert_eq!(var_pop(&w).to_f64(), 4.0);
        assert_eq!(mad(&w).to_f64(), 1.5);
        // weights 1..3, newest heaviest: (1*1 + 2*2 + 3*6)/6
        assert!((wma(&[1.0, 2.0, 6.0]).to_f64() - 23.0 / 6.0).abs() < 1e-15);
        assert_eq!(wmin(&w), 2.0);
        assert_eq!(wmax(&w), 9.0);
    }
    #[test]
    fn ema_recursion_matches_closed_form_and_doc_example() {
        // the crate's own doc example: EMA(3) of 2, 5, 1, 6.25 = 2, 3.5, 2.25, 4.25
        let mut e = EmaRef::new(3);
        let xs = [2.0, 5.0, 1.0, 6.25];
        let want = [2.0, 3.5, 2.25, 4.25];
        let mut dd = vec![];
        for (x, w) in xs.iter().zip(want) {
            let r = e.next(DD::from(*x));
            dd.push(DD::from(*x));
            assert_eq!(r.to_f64(), w);
            assert!(ema_closed_form(3, &dd).sub(r).abs().to_f64() < 1e-28);
        }
    }
    #[test]
    fn oscillator_references_on_hand_computed_cases() {
        // ROC(2): 10, 11, 12 -> lookback is the first price until 2 earlier prices exist
        assert_eq!(roc_ref(&[10.0], 2).unwrap().val.to_f64(), 0.0);
        assert!((roc_ref(&[10.0, 11.0], 2).unwrap().val.to_f64() - 10.0).abs() < 1e-13);
        assert!((roc_ref(&[10.0, 11.0, 12.0], 2).unwrap().val.to_f64() - 20.0).abs() < 1e-13);
        assert!((roc_ref(&[10.0, 11.0, 12.0, 12.1], 2).unwrap().val.to_f64() - 10.0).abs() < 1e-12);
        // ER(2): 1, 3, 2 -> |2-1| / (|3-1| + |2-3|) = 1/3 ; flat -> None
        assert!((er_ref(&[1.0, 3.0, 2.0], 2).unwrap().val.to_f64() - 1.0 / 3.0).abs() < 1e-15);
        assert!(er_ref(&[5.0, 5.0, 5.0], 2).is_none());
        assert_eq!(er_ref(&[5.0], 2).unwrap().val.to_f64(), 1.0);
        // FastStochastic: window [1,5], x = 2 -> 25 ; flat -> 50
        assert_eq!(fast_stoch_ref(&[1.0, 5.0], &[1.0, 5.0], 2.0).val.to_f64(), 25.0);
        assert_eq!(fast_stoch_ref(&[3.0, 3.0], &[3.0, 3.0], 3.0).val.to_f64(), 50.0);
        // RSI: first output 50; then one gain of 1 with n = 1 (alpha = 1): U = 1, D = 0 -> 100
        let mut r = RsiRef::new(1);
        assert_eq!(r.next(10.0).unwrap().val.to_f64(), 50.0);
        assert_eq!(r.next(11.0).unwrap().val.to_f64(), 100.0);
        assert!(r.next(11.0).is_none());
        // CCI of the documented formula on TPs 10, 11, 12 (n = 3): mean 11, MAD 2/3, (12-11)/(0.015*2/3) = 100
        let b = |x: f64| RawBar { o: x, h: x + 1.0, l: x - 1.0, c: x, v: 1.0 };
        let bars = [b(10.0), b(11.0), b(12.0)];
        assert!((cci_ref(&bars, 3, 12.0).unwrap().val.to_f64() - 100.0).abs() < 1e-12);
        // MFI(2): TPs 10 -> 11 (vol 2) -> 10.5 (vol 4): PMF = 22, NMF = 42 -> 100*22/64
        let bv = |x: f64, v: f64| RawBar { o: x, h: x, l: x, c: x, v };
        let m = mfi_ref(&[bv(10.0, 1.0), bv(11.0, 2.0), bv(10.5, 4.0)], 2, 1e-12);
        assert_eq!(m.pmf.to_f64(), 22.0);
        assert_eq!(m.nmf.to_f64(), 42.0);
        assert!(!m.tainted);
    }
    #[test]
    fn tie_rules() {
        let a = RawBar { o: 9.0, h: 10.0, l: 8.0, c: 9.0, v: 1.0 };
        let b = RawBar { o: 9.0, h: 11.0, l: 7.0, c: 9.0, v: 1.0 };
        // equal typical prices from different bars with exactly representable sums: unambiguous for the
        // plain rule, ambiguous for the strict one (used when the stream is also evaluated after rescaling)
        assert!(tp_pair_unambiguous(&a, &b, 1e-12));
        assert!(!tp_pair_unambiguous_ex(&a, &b, 1e-12, false));
        assert!(tp_pair_unambiguous_ex(&a, &a, 1e-12, false));
        let c = RawBar { o: 9.0, h: 10.0, l: 8.0, c: 9.0 + 1e-15, v: 1.0 };
        assert!(!tp_pair_unambiguous(&a, &c, 1e-12));
    }
    #[test]
    fn tolerance_helpers() {
        assert_eq!(tau(0), 1e-12);
        assert!((tau(1_000_000) - (1e-12 + 1e-6)).abs() < 1e-18);
        assert_eq!(ulp(1.0), f64::EPSILON);
        let (lo, hi) = sd_interval(DD::from(4.0), 0.0);
        assert_eq!((lo, hi), (2.0, 2.0));
        let (lo, _) = sd_interval(DD::from(1e-20), 1e-10);
        assert_eq!(lo, 0.0);
    }
}
