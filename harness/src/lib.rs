pub mod adapter;
pub mod dd;
pub mod fw;
pub mod gen;
pub mod hist;
pub mod refs;
pub mod props {
    pub mod c01;
    pub mod c02;
    pub mod c03;
    pub mod c04;
    pub mod c05;
    #[cfg(feature = "serde")]
    pub mod c06;
    pub mod c07;
    pub mod c08;
    pub mod c09;
    pub mod c10;
    pub mod c11;
    pub mod c12;
    pub mod c13;
    pub mod c15;
    pub mod c16;
}
