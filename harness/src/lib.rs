pub mod adapter;
pub mod dd;
pub mod fw;
pub mod gen;
pub mod refs;
pub mod props {
    pub mod c01;
}
