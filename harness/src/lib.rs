pub mod adapter;
pub mod dd;
pub mod fw;
pub mod gen;
pub mod refs;
pub mod props {
    pub mod c01;
    pub mod c02;
    pub mod c03;
}
