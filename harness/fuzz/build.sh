#!/bin/bash
# builds the libFuzzer targets (nightly, no sanitizer: ta has no unsafe code) from the current /repo tree
cd "$(dirname "$0")" || exit 2
export CARGO_NET_OFFLINE=true
if ! cargo +nightly fuzz build -s none >build.log 2>&1; then
  tail -40 build.log >&2
  echo "INCONCLUSIVE fuzz build failed" >&2
  exit 2
fi
exit 0
