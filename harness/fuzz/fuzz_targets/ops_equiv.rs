#![no_main]
// C04 / C05 / C06: the first byte selects the scenario, the rest is decoded into the same Case
// types the proptest stages use; the differential oracle is inside the check functions.
use libfuzzer_sys::fuzz_target;
use tacheck::fuzzdec::*;
use tacheck::props::{c04, c05, c06};

fuzz_target!(|data: &[u8]| {
    if data.is_empty() {
        return;
    }
    let rest = &data[1..];
    static ONLY: std::sync::OnceLock<Option<u8>> = std::sync::OnceLock::new();
    let only = *ONLY.get_or_init(|| std::env::var("TACHECK_FUZZ_ONLY").ok().and_then(|s| s.parse().ok()));
    let r = match only.unwrap_or(data[0] % 3) {
        0 => run_plain(&decode_c04(rest), "C04", c04::check, &[]),
        1 => run_plain(&decode_c05(rest), "C05", c05::check, &[]),
        _ => run_plain(&decode_c06(rest), "C06", c06::check, &[]),
    };
    if let Err(f) = r {
        panic!("FUZZ-VIOLATION {} :: {}", f.signature, f.detail);
    }
});
