#![no_main]
// C01 / C02 / C03: reference-model checks driven by coverage-guided byte mutation. The first byte (or
// TACHECK_FUZZ_ONLY) selects the property; the decoder builds a configuration (periods up to 2048) and a
// stream from regime segments. Coverage feedback is what reaches period-dependent code paths.
use libfuzzer_sys::fuzz_target;
use tacheck::fuzzdec::*;
use tacheck::props::{c01, c02, c03};

fuzz_target!(|data: &[u8]| {
    if data.is_empty() {
        return;
    }
    let rest = &data[1..];
    static ONLY: std::sync::OnceLock<Option<u8>> = std::sync::OnceLock::new();
    let only = *ONLY.get_or_init(|| std::env::var("TACHECK_FUZZ_ONLY").ok().and_then(|s| s.parse().ok()));
    let r = match only.unwrap_or(data[0] % 3) {
        0 => run_plain(&decode_c01(rest), "C01", c01::check, &[]),
        1 => run_plain(&decode_c02(rest), "C02", c02::check, &[]),
        _ => run_plain(&decode_c03(rest), "C03", c03::check, &[]),
    };
    if let Err(f) = r {
        panic!("FUZZ-VIOLATION {} :: {}", f.signature, f.detail);
    }
});
