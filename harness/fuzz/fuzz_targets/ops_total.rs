#![no_main]
// C12: any op sequence returns normally. The oracle (catch_unwind per call) is inside c12::check;
// a reported failure becomes a panic so libFuzzer saves the input.
use libfuzzer_sys::fuzz_target;
use tacheck::fuzzdec::{decode_c12, run_plain};
use tacheck::props::c12;

fuzz_target!(|data: &[u8]| {
    let case = decode_c12(data);
    if let Err(f) = run_plain(&case, "C12", c12::check, &[]) {
        panic!("FUZZ-VIOLATION {} :: {}", f.signature, f.detail);
    }
});
