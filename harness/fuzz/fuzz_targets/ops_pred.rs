#![no_main]
// C07 / C08 / C09 / C15 / C17: range predicates, degenerate-window predicates, invariants, composite-vs-parts
// and suffix differentials under coverage-guided byte mutation (periods to 1024, segment-built streams).
use libfuzzer_sys::fuzz_target;
use tacheck::fuzzdec::*;
use tacheck::props::{c07, c08, c09, c15, c16, c17};

fuzz_target!(|data: &[u8]| {
    if data.is_empty() {
        return;
    }
    let rest = &data[1..];
    static ONLY: std::sync::OnceLock<Option<u8>> = std::sync::OnceLock::new();
    let only = *ONLY.get_or_init(|| std::env::var("TACHECK_FUZZ_ONLY").ok().and_then(|s| s.parse().ok()));
    let r = match only.unwrap_or(data[0] % 6) {
        0 => run_plain(&decode_c07(rest), "C07", c07::check, &[]),
        1 => run_plain(&decode_c08(rest), "C08", c08::check, &[]),
        2 => run_plain(&decode_c09(rest), "C09", c09::check, &[]),
        3 => run_plain(&decode_c15(rest), "C15", c15::check, &[]),
        5 => run_plain(&decode_c16(rest), "C16", c16::check, &[]),
        _ => run_plain(&decode_c17(rest), "C17", c17::check, &[]),
    };
    if let Err(f) = r {
        panic!("FUZZ-VIOLATION {} :: {}", f.signature, f.detail);
    }
});
