#!/bin/sh
# MANIFEST.setup_cmd: offline build of the harness in both configurations.
set -e
cd "$(dirname "$0")"
exec ./check --build-only
